"""Rules on the dynamic solvers (src/dynamics) shared by C08 and C09."""
import re
from ..core import (
    is_try_residual,
    Site,
    callee_of,
    callee_is,
    callee_name,
    callee_decl,
    callee_matches,
    strip_generics,
    op_place,
    op_const,
    origins,
    data_deps,
    derives_from_local,
    place_fields,
    self_fields_read,
    switch_sites,
)
from ..flow import conditions, consumers, switch_subject
from .satlayer import place_ty

DYNSOLVER = "dynamics::dynamic_solver::DynamicSolver"
UPDATE_METHODS = ("new_argument", "remove_argument", "new_attack", "remove_attack")
RESULT_METHODS = ("remove_argument", "new_attack", "remove_attack")
AAF = "aa::aa_framework::AAFramework"


def dyn_impls(prog):
    return prog.impls_of_trait(DYNSOLVER)


def impl_method(prog, imp, name):
    for m in imp["methods"]:
        if m["name"] == name:
            return prog.lib(m["path"])
    return None


# ------------------------------------------------------------------------------------------
# C09.1 Err-capability


def ret_sources(prog, body, _seen=None):
    """kinds of values a Result-returning function may return, following local delegation:
    set of strings 'Ok(())', 'Err', '?', 'ext:<callee>', 'param', 'unknown:<..>';
    also returns the set of local functions whose own body contributes only Ok(())"""
    if _seen is None:
        _seen = set()
    if body.id in _seen:
        return set(), []
    _seen.add(body.id)
    out = set()
    roots = []
    own = set()
    for o in origins(body, {"l": 0, "p": []}, transparent=()):
        if o.kind == "agg" and o.data["kind"] == "adt" and o.data["path"] == "core::result::Result":
            if o.data["variant"] == "Ok":
                own.add("Ok(())")
            else:
                own.add("Err")
        elif o.kind == "call":
            c = o.data
            nm = strip_generics(callee_name(c) or "")
            if is_try_residual(c):
                own.add("?")
                continue
            tgt = prog.body_for_callee(c, body) if c.get("decl") != "<indirect>" else None
            if tgt is not None:
                sub, subroots = ret_sources(prog, tgt, _seen)
                out |= sub
                roots += subroots
            elif c.get("virtual") or (c.get("trait") in prog.traits and not c.get("resolved")):
                mname = c["decl"].rsplit("::", 1)[-1]
                for _, mb in prog.impl_methods(c["trait"], mname):
                    sub, subroots = ret_sources(prog, mb, _seen)
                    out |= sub
                    roots += subroots
            else:
                own.add("ext:" + nm)
        elif o.kind == "param":
            own.add("param")
        else:
            own.add("unknown:" + o.kind)
    if own and own <= {"Ok(())"}:
        roots.append(body)
    return out | own, roots


def rule_err_capability(ctx):
    prog = ctx.prog
    r = ctx.rule(
        "err-capability",
        "every Result-returning DynamicSolver update method has, following delegation through the call graph, at least one return "
        "source that is not the constant Ok(()) (an Err construction, a `?`, or the Result of a framework operation)",
    )
    impls = dyn_impls(prog)
    if not r.require_anchor(impls, "impls of " + DYNSOLVER):
        return
    r.floor(len(impls), 6, "DynamicSolver impls")
    const_roots = {}
    for imp in impls:
        for m in RESULT_METHODS:
            b = impl_method(prog, imp, m)
            if not r.require_anchor(b, "%s::%s" % (imp["self_ty"], m)):
                continue
            srcs, roots = ret_sources(prog, b)
            capable = bool(srcs - {"Ok(())"})
            if capable:
                r.ok(b.id, "can return an error (sources: %s)" % sorted(srcs), b.loc())
            else:
                for rt in roots or [b]:
                    const_roots.setdefault(rt.id, (rt, []))[1].append(b.path)
    for rid, (rt, users) in sorted(const_roots.items()):
        r.violation(
            rid,
            "sources={Ok(())}",
            "%s can only return Ok(()): an update on an unknown argument/attack cannot be reported by the update call itself (reached from %s)" % (rt.path, sorted(set(users))),
            rt.loc(),
        )


# ------------------------------------------------------------------------------------------
# C09.2 possibly-no-op insertion


def _self_mutations(prog, body, after_site=None):
    """sites in `body` that mutate a field of self (param 1): stores, &mut borrows passed to calls
    (Vec::push etc.), calls of local &mut self methods.  Only sites not dominated... after `after_site`
    in the CFG (reachable from it) are returned when given."""
    out = []
    reach = None
    if after_site is not None:
        reach = body.blocks_reachable_from(after_site.bb) | {after_site.bb}
    for s in body.sites():
        if reach is not None and s.bb not in reach:
            continue
        if after_site is not None and s.bb == after_site.bb and s.si is not None:
            continue
        n = s.node
        if s.si is not None and n["k"] == "assign":
            d = n["dst"]
            if d["l"] == 1 and place_fields(d):
                out.append((s, "store self.%s" % place_fields(d)[0]))
            rv = n["rv"]
            if rv["k"] == "ref" and rv.get("mut") and rv["place"]["l"] == 1 and place_fields(rv["place"]):
                # what is the borrow used for
                f = place_fields(rv["place"])[0]
                for c in consumers(body, d["l"], follow_refs=True):
                    if c.kind == "call" and c.info[0] is not None:
                        nm = strip_generics(callee_name(c.info[0]))
                        if nm.endswith(("Vec::push", "Vec::insert", "Vec::resize", "Vec::extend", "Vec::append", "IndexMut::index_mut", "DerefMut::deref_mut")):
                            out.append((c.site, "%s on self.%s" % (nm.rsplit("::", 1)[-1], f)))
            if rv["k"] == "ref" and rv.get("mut") and rv["place"]["l"] == 1 and not place_fields(rv["place"]):
                for c in consumers(body, d["l"], follow_refs=True):
                    if c.kind == "call" and c.info[0] is not None and c.info[0].get("local") and c.info[1] == 0:
                        out.append((c.site, "call %s(&mut self)" % strip_generics(callee_name(c.info[0]))))
    # dedupe
    seen = set()
    res = []
    for s, w in out:
        k = (s.bb, s.si, w)
        if k not in seen:
            seen.add(k)
            res.append((s, w))
    return res


def _is_freshness_cond(body, cond):
    """is the branch condition an exact test that a label is (was) new: a by-label look-up in the
    framework's argument store, or a comparison of ONE counting function of the store read before
    and after the insertion (two different counters - e.g. the largest id against the number of
    live arguments - agree only while nothing was ever removed)"""
    _, calls, _ = data_deps(body, cond.place)
    lookups, counters = [], []
    for cs in calls:
        c = callee_of(cs)
        if not c:
            continue
        if callee_matches(c, r"^aa::(arguments::ArgumentSet|aa_framework::AAFramework)::(get_argument|has_argument|get_argument_index)$|^utils::label::LabelSet::(get|contains|get_label|index_of)"):
            lookups.append(cs)
        elif callee_matches(c, r"^aa::(arguments::ArgumentSet|aa_framework::AAFramework)::(n_arguments|len|max_argument_id|n_removed|is_empty)$|^utils::label::LabelSet::(len|n_labels)"):
            counters.append(cs)
    if counters:
        kinds = {strip_generics(callee_decl(callee_of(cs))) for cs in counters}
        return len(kinds) == 1 and len({(cs.bb, cs.si) for cs in counters}) >= 2
    return bool(lookups)


def rule_noop_insertion(ctx):
    prog = ctx.prog
    r = ctx.rule(
        "noop-insertion-guard",
        "after AAFramework::new_argument (which ignores an existing label) an encoder may grow its id-indexed tables or use "
        "max_argument_id() as the new id only under a freshness test of the label / argument count",
    )
    sites = []
    for b in prog.lib_bodies():
        if not b.path.startswith("dynamics::"):
            continue
        for s in b.calls():
            if callee_is(callee_of(s), AAF + "::new_argument"):
                sites.append((b, s))
    if not r.require_anchor(sites, "calls of AAFramework::new_argument in src/dynamics"):
        return
    n_tables = 0
    for b, s in sites:
        muts = _self_mutations(prog, b, after_site=s)
        if not muts:
            r.ok(b.id, "plain delegation to AAFramework::new_argument (no table of its own)", s.loc())
            continue
        n_tables += 1
        guarded_call = any(_is_freshness_cond(b, c) for c in conditions(b, s.bb))
        if guarded_call:
            r.ok(b.id, "insertion is guarded by a freshness test; %d table updates follow" % len(muts), s.loc())
            continue
        unguarded = []
        for ms, what in muts:
            if not any(_is_freshness_cond(b, c) for c in conditions(b, ms.bb)):
                unguarded.append((ms, what))
        r.check(
            not unguarded,
            b.id,
            "unguarded-table-updates",
            "every table update after the insertion is under a freshness test",
            "new_argument on an existing label is a no-op in the framework but is followed by unconditional table updates (%s): ids and SAT variables are then attributed to the wrong argument" % sorted({w for _, w in unguarded}),
            s.loc(),
        )
    r.floor(n_tables, 2, "encoder new_argument functions with tables of their own")


# ------------------------------------------------------------------------------------------
# C09.4 / C08.6 recompute-from-scratch wrapper


def rule_dummy_delegation(ctx):
    prog = ctx.prog
    r = ctx.rule(
        "scratch-wrapper",
        "the recompute-from-scratch wrapper forwards each update directly to its own AAFramework, stores nothing else, and builds its "
        "computer from that framework inside each query",
    )
    found = 0
    for imp in dyn_impls(prog):
        adt = prog.adt(imp.get("self_adt") or "")
        if not adt:
            continue
        ftys = [f["ty"] for v in adt["variants"] for f in v["fields"]]
        if any("SatSolver" in t and "Rc<" in t for t in ftys):
            continue  # incremental solvers
        found += 1
        for m in UPDATE_METHODS:
            b = impl_method(prog, imp, m)
            if b is None:
                continue
            calls = [s for s in b.calls() if callee_matches(callee_of(s), r"^aa::aa_framework::AAFramework::%s$" % m)]
            ok = len(calls) == 1 and b.postdominates(calls[0], (0, -1))
            if ok and m != "new_argument":
                ok = any(o.kind == "call" and o.site.bb == calls[0].bb for o in origins(b, {"l": 0, "p": []}, transparent=()))
            r.check(ok, b.id, "not-forwarded", "%s forwards to AAFramework::%s and returns its result" % (m, m), "%s does not forward to AAFramework::%s (or drops its result)" % (m, m), b.loc())
            # ... with its own operands, in the order it received them (`remove_attack(from, to)` forwards `(from, to)`)
            if ok and len(calls) == 1:
                swapped = []
                for k, a in enumerate(calls[0].node["args"][1:]):
                    ps = {o.data for o in origins(b, a) if o.kind == "param" and not o.fields}
                    others = [o for o in origins(b, a) if not (o.kind == "param" and not o.fields)]
                    if ps and not others and ps != {k + 2}:
                        swapped.append((k + 2, sorted(ps)))
                r.check(not swapped, b.id + "|operands", "operands-permuted:%s" % swapped, "%s forwards its operands in the order it received them" % m, "%s hands its operands to AAFramework::%s in another order (position -> parameter: %s): the update applied is not the one requested" % (m, m, swapped), calls[0].loc())
            # ... and applies no other update to the framework (a redundant update must stay a no-op of the store)
            extra = [s for y in prog.with_closures(b) for s in y.calls() if callee_matches(callee_of(s), r"^aa::aa_framework::AAFramework::(new_argument|remove_argument|new_attack|remove_attack|new_attack_by_ids)$") and not callee_matches(callee_of(s), r"^aa::aa_framework::AAFramework::%s$" % m)]
            r.check(not extra, b.id + "|only", "second-update:%s" % sorted({callee_decl(callee_of(s)).rsplit("::", 1)[-1] for s in extra}), "%s applies no other update to the framework" % m, "%s also applies %s to the framework: the update is no longer the store's own (a redundant or invalid update changes it)" % (m, sorted({callee_decl(callee_of(s)).rsplit("::", 1)[-1] for s in extra})), extra[0].loc() if extra else b.loc())
        # no other state: fields are the framework and the factory only
        others = [t for t in ftys if not (t.startswith("aa::aa_framework::AAFramework<") or "dyn" in t)]
        r.check(not others, adt["path"], "extra-state:%s" % others, "holds only the framework and the computer factory", loc=None)
    r.floor(found, 1, "recompute-from-scratch DynamicSolver impl")


# ------------------------------------------------------------------------------------------
# C08.1 cache barriers


def event_enum(prog):
    """(enum adt, update variants) : the enums built inside DynamicSolver update methods"""
    out = {}
    for imp in dyn_impls(prog):
        for m in UPDATE_METHODS:
            b = impl_method(prog, imp, m)
            if b is None:
                continue
            for x in prog.reachable_from([b], virtual_dispatch=False).values():
                for s in x.sites():
                    n = s.node
                    if s.si is not None and n["k"] == "assign" and n["rv"]["k"] == "aggregate":
                        a = n["rv"]["agg"]
                        if a["kind"] == "adt" and a["path"].startswith("dynamics::") and prog.adt(a["path"]) and prog.adt(a["path"])["kind"] == "enum":
                            out.setdefault(a["path"], {}).setdefault(a["variant"], set()).add(m)
    return out


ENCODER_OPS = r"^dynamics::.*DynamicConstraintsEncoder::(new_argument|remove_argument|new_attack|remove_attack)$"


def _arm_region(b, sw, target_bb):
    """blocks executed only on the arm of switch `sw` that starts at target_bb (up to the join with other arms; the
    back edge of an enclosing loop is not followed)"""
    avoid = {sw.bb} | set(b.in_loop(sw.bb))
    region = {target_bb} | b.blocks_reachable_from(target_bb, avoid=avoid)
    others = set()
    for sc in b.succ[sw.bb]:
        if sc != target_bb:
            others |= {sc} | b.blocks_reachable_from(sc, avoid=avoid)
    return region - others


def _ops_called(prog, b, blocks):
    """names of the update operations of the inner dynamic encoders called in `blocks`, directly or in local helpers"""
    out = set()
    for x in blocks:
        tt = b.blocks[x]["term"]
        if tt["k"] != "call" or not tt.get("callee"):
            continue
        c = tt["callee"]
        nm = strip_generics(callee_name(c) or "")
        if re.search(ENCODER_OPS, nm):
            out.add(nm.rsplit("::", 1)[-1])
            continue
        tgt = prog.body_for_callee(c, b) if c.get("decl") != "<indirect>" else None
        if tgt is not None and tgt.path.startswith("dynamics::") and not re.search(r"DynamicConstraintsEncoder::", strip_generics(tgt.path).replace("BufferedDynamicConstraintsEncoder::", "")):
            for y in prog.reachable_from([tgt], virtual_dispatch=False).values():
                for s in y.calls():
                    n2 = strip_generics(callee_name(callee_of(s)) or "")
                    if re.search(ENCODER_OPS, n2):
                        out.add(n2.rsplit("::", 1)[-1])
    return out


def event_matches(prog):
    """every `match` on an event enum, classified: 'replay' when an update arm applies an operation of the inner encoder
    (directly or through a helper), 'scan' otherwise: [(enum path, update variants, {discr: name}, body, switch site, kind)]"""
    out = []
    for epath, upd in sorted(event_enum(prog).items()):
        adt = prog.adt(epath)
        idx = {str(v["idx"]): v["name"] for v in adt["variants"]}
        for b in prog.lib_bodies():
            for sw in switch_sites(b):
                subj = switch_subject(b, sw)
                if not subj or not subj[1]:
                    continue
                ty = place_ty(b, subj[0]).replace("&", "").strip()
                if not (ty.startswith(epath + "<") or ty == epath):
                    continue
                kind = "scan"
                for val, bb in sw.node["targets"]:
                    if idx.get(val) in upd and _ops_called(prog, b, _arm_region(b, sw, bb)):
                        kind = "replay"
                out.append((epath, upd, idx, b, sw, kind))
    return out


_SEARCHES = r"iter::traits::iterator::Iterator::(find_map|find|any|position|try_for_each|for_each|try_fold|fold|filter_map|map)$"


def _iterator_chain(prog, body, op, depth=0):
    """[(callee decl, [closure bodies])] of the adaptor calls producing an iterator operand, innermost last; follows local functions
    that return the iterator"""
    out = []
    if depth > 6:
        return out
    for o in origins(body, op, transparent=("core::iter::traits::collect::IntoIterator::into_iter",)):
        if o.kind != "call":
            continue
        d = callee_decl(o.data)
        clos = [prog.by_target[body.target].get(fa) or prog.by_target["lib"].get(fa) for fa in (o.data.get("fn_args") or [])]
        clos = [c for c in clos if c is not None]
        tgt = prog.body_for_callee(o.data, body) if d != "<indirect>" else None
        if tgt is not None and tgt.kind != "closure":
            out += _iterator_chain(prog, tgt, {"c": {"l": 0, "p": []}}, depth + 1)
            continue
        out.append((d, clos))
        if o.site.node["args"]:
            out += _iterator_chain(prog, body, o.site.node["args"][0], depth + 1)
    return out


def _arm_values(b, sw, adt, names, what):
    """for the switch on the event enum in closure b: the variants (of `names`) on whose arm `what(region)` holds"""
    idx = {v["name"]: str(v["idx"]) for v in adt["variants"]}
    t = sw.node
    out = set()
    for vname in names:
        tgt = None
        for val, bb in t["targets"]:
            if val == idx[vname]:
                tgt = bb
        if tgt is None:
            tgt = t["otherwise"]
        region = {tgt} | b.blocks_reachable_from(tgt, avoid={sw.bb})
        if what(region):
            out.add(vname)
    return out


def _closure_scan(prog, b, sw, adt, upd):
    """a closure matching on the event enum handed to a searching adaptor (find_map & co.) over the log: (update variants at which
    the scan stops, update variants on whose arm an answer is built); None when the closure is not such a scan"""
    par = None
    for x in prog.bodies_in(b.target):
        if b.parent and x.path == b.parent["direct"]:
            par = x
    if par is None:
        return None
    use = None
    for cs in par.calls():
        c = callee_of(cs)
        if c is not None and b.path in (c.get("fn_args") or []) and callee_matches(c, _SEARCHES):
            use = cs
    if use is None:
        return None
    if _ops_called(prog, b, set(b.reachable)):
        return None  # a replay written with for_each: log-and-replay
    chain = _iterator_chain(prog, par, use.node["args"][0])
    barrier = set()
    for d, clos in chain:
        if re.search(r"Iterator::(take_while|map_while)$", d):
            for cl in clos:
                for sw2 in switch_sites(cl):
                    subj = switch_subject(cl, sw2)
                    if not subj or not subj[1]:
                        continue
                    ty = place_ty(cl, subj[0]).replace("&", "").strip()
                    if not (ty.startswith(adt["path"] + "<") or ty == adt["path"]):
                        continue

                    def stops(region, cl=cl):
                        vals = set()
                        for x in region:
                            for st in cl.blocks[x]["stmts"]:
                                if st["k"] == "assign" and st["dst"]["l"] == 0 and not st["dst"]["p"]:
                                    if st["rv"]["k"] == "use" and op_const(st["rv"]["ops"][0]) is not None and "bool" in op_const(st["rv"]["ops"][0]):
                                        vals.add(op_const(st["rv"]["ops"][0])["bool"])
                                    elif st["rv"]["k"] == "aggregate" and st["rv"]["agg"].get("variant") == "None":
                                        vals.add(False)
                                    else:
                                        vals.add("?")
                        return vals == {False}

                    barrier |= _arm_values(cl, sw2, adt, sorted(upd), stops)

    def answers(region):
        return any(st["k"] == "assign" and st["rv"]["k"] == "aggregate" and st["rv"]["agg"].get("variant") == "Some" for x in region for st in b.blocks[x]["stmts"])

    return barrier, _arm_values(b, sw, adt, sorted(upd), answers)


def rule_cache_barriers(ctx):
    prog = ctx.prog
    r = ctx.rule(
        "cache-barrier",
        "in every cache look-up (reverse scan of the event log) each *update* variant of the event enum leaves the scan without an "
        "answer; only query-result variants may continue the scan or answer",
    )
    enums = event_enum(prog)
    if not r.require_anchor(enums, "event enum constructed by DynamicSolver update methods"):
        return
    n_scans = 0
    scan_owners = set()
    for epath, upd in sorted(enums.items()):
        adt = prog.adt(epath)
        idx = {v["name"]: str(v["idx"]) for v in adt["variants"]}
        r.check(len(upd) == 4, epath, "update-variants=%s" % sorted(upd), "4 update variants: %s" % sorted(upd), loc=None)
        for b in prog.lib_bodies():
            for sw in switch_sites(b):
                subj = switch_subject(b, sw)
                if not subj or not subj[1]:
                    continue
                ty = place_ty(b, subj[0]).replace("&", "").strip()
                if not ty.startswith(epath + "<") and ty != epath:
                    continue
                loops = b.in_loop(sw.bb)
                if not loops and b.kind == "closure":
                    res = _closure_scan(prog, b, sw, adt, upd)
                    if res is not None:
                        n_scans += 1
                        scan_owners.add(epath)
                        barrier, answers = res
                        for vname in sorted(upd):
                            anchor = "%s|%s" % (b.id, vname)
                            r.check(vname in barrier, anchor, "continues-scan", "update event %s ends the scan (the iterator is cut at the first event that is not a query result)" % vname, "the scan continues past the update event %s: an answer cached before the update can be returned after it" % vname, sw.loc())
                            r.check(vname not in answers, anchor, "answers", "no answer is produced on the %s arm" % vname, "an answer is produced on the update event %s" % vname, sw.loc())
                    continue
                if not loops:
                    continue  # not a scan of the log
                if any(_ops_called(prog, b, _arm_region(b, sw, bb2)) for v2, bb2 in sw.node["targets"] if {str(x["idx"]): x["name"] for x in adt["variants"]}.get(v2) in upd):
                    continue  # the replay loop (applies the events to the inner encoder): checked by log-and-replay
                n_scans += 1
                scan_owners.add(epath)
                head = loops[0]
                loop_blocks = dict(b.loops())[head]
                t = sw.node
                for vname in sorted(upd):
                    v = idx[vname]
                    tgt = None
                    for val, bb in t["targets"]:
                        if val == v:
                            tgt = bb
                    if tgt is None:
                        tgt = t["otherwise"]
                    region = {tgt} | b.blocks_reachable_from(tgt, avoid={head})
                    back = tgt == head or b.reaches(tgt, head, avoid=()) and any(x in loop_blocks and head in b.succ[x] for x in region)
                    somes = []
                    for x in region:
                        for st in b.blocks[x]["stmts"]:
                            if st["k"] == "assign" and st["rv"]["k"] == "aggregate" and st["rv"]["agg"].get("variant") == "Some":
                                somes.append(x)
                    anchor = "%s|%s" % (b.id, vname)
                    r.check(not back, anchor, "continues-scan", "update event %s ends the scan" % vname, "the scan continues past the update event %s: an answer cached before the update can be returned after it" % vname, sw.loc())
                    r.check(not somes, anchor, "answers", "no answer is produced on the %s arm" % vname, "an answer is produced on the update event %s" % vname, sw.loc())
    # scans written over a view of the log: `log.iter().rev().map_while(Event::as_query_result)` - the barrier is the named function
    for epath, upd in sorted(enums.items()):
        adt = prog.adt(epath)
        for b in prog.lib_bodies():
            if b.kind == "closure" or not (b.ret_ty.startswith("core::option::Option<") or b.ret_ty == "bool"):
                continue
            sws = []
            for sw in switch_sites(b):
                subj = switch_subject(b, sw)
                if subj and subj[1]:
                    ty = place_ty(b, subj[0]).replace("&", "").strip()
                    if ty.startswith(epath + "<") or ty == epath:
                        sws.append(sw)
            if not sws:
                continue
            # the function itself, or a closure that only hands its argument to it (`take_while(|e| e.is_computation())`)
            names = {b.path}
            for cl in prog.lib_bodies():
                if cl.kind == "closure":
                    ro = origins(cl, {"l": 0, "p": []}, transparent=())
                    if ro and all(o.kind == "call" and not o.fields and prog.body_for_callee(o.data, cl) is b for o in ro):
                        names.add(cl.path)
            users = [(y, cs) for y in prog.lib_bodies() for cs in y.calls() if callee_of(cs) and names & set(callee_of(cs).get("fn_args") or []) and re.search(r"Iterator::(map_while|take_while)$", callee_decl(callee_of(cs)) or "")]
            if not users and b.ret_ty.startswith("core::option::Option<"):
                # `log.iter().rev().map(Event::as_record).take_while(Option::is_some)`: the function names the barrier, `is_some` cuts at it
                for y in prog.lib_bodies():
                    for cs in y.calls():
                        c0 = callee_of(cs)
                        if c0 and re.search(r"Iterator::take_while$", callee_decl(c0) or "") and any(re.search(r"option::Option::(<.*>::)?is_some$", fa) for fa in (c0.get("fn_args") or [])):
                            for o in origins(y, cs.node["args"][0], transparent=()):
                                if o.kind == "call" and re.search(r"Iterator::map$", callee_decl(o.data) or "") and names & set(o.data.get("fn_args") or []):
                                    users.append((y, cs))
            if not users:
                continue

            def stops(region, cl=b):
                vals = set()
                for x in region:
                    for st in cl.blocks[x]["stmts"]:
                        if st["k"] == "assign" and st["dst"]["l"] == 0 and not st["dst"]["p"]:
                            if st["rv"]["k"] == "aggregate" and st["rv"]["agg"].get("variant") == "None":
                                vals.add(False)
                            elif st["rv"]["k"] == "use" and (op_const(st["rv"]["ops"][0]) or {}).get("bool") is False:
                                vals.add(False)
                            else:
                                vals.add("?")
                return vals == {False}

            barrier = set()
            for sw in sws:
                barrier |= _arm_values(b, sw, adt, sorted(upd), stops)
            # every consumer of the view is a scan behind this barrier
            consumers_ = set()
            for y, cs in users:
                fn_y = prog.enclosing_fn(y)
                _, rc, _ = data_deps(fn_y, {"l": 0, "p": []}) if y is fn_y else (None, [], None)
                cons = prog.callers_of(fn_y) if any((c.bb, c.si) == (cs.bb, cs.si) for c in rc) else []
                for c2 in cons or [cs]:
                    consumers_.add((c2.body.id, c2.bb))
            n_scans += len(consumers_)
            if consumers_:
                scan_owners.add(epath)
            for vname in sorted(upd):
                r.check(vname in barrier, "%s|%s" % (b.id, vname), "continues-scan", "update event %s ends the view of the log that the look-ups scan" % vname, "the view of the log the cache look-ups scan does not end at the update event %s: an answer cached before the update can be returned after it" % vname, b.loc())
    # merging the two look-ups of an encoder into one scan halves the count: what cannot shrink is the number of event logs that are scanned
    r.floor(len(scan_owners), 2, "event logs with a cache look-up scan (one per buffered encoder)")
    r.floor(n_scans, 2, "cache look-up scans")


# ------------------------------------------------------------------------------------------
# C08.2 logging and replay


def rule_log_and_replay(ctx):
    prog = ctx.prog
    r = ctx.rule(
        "log-and-replay",
        "each update method of a buffered dynamic solver pushes its own event variant on every path; the replay applies the same-named "
        "encoder operation per variant, starts at the cursor and moves the cursor to the end of the log; every query replays before its first SAT call",
    )
    enums = event_enum(prog)
    n_buffered = 0
    for imp in dyn_impls(prog):
        adt = prog.adt(imp.get("self_adt") or "")
        if not adt:
            continue
        ftys = [f["ty"] for v in adt["variants"] for f in v["fields"]]
        if not any("SatSolver" in t and "Rc<" in t for t in ftys):
            continue
        n_buffered += 1
        for m in UPDATE_METHODS:
            b = impl_method(prog, imp, m)
            if b is None:
                continue
            reach = prog.reachable_from([b], virtual_dispatch=False)
            built = set()
            pushes = []
            for x in reach.values():
                for s in x.sites():
                    n = s.node
                    if s.si is not None and n["k"] == "assign" and n["rv"]["k"] == "aggregate":
                        a = n["rv"]["agg"]
                        if a["kind"] == "adt" and a["path"] in enums:
                            built.add((a["path"], a["variant"]))
                for s in x.calls():
                    if callee_matches(callee_of(s), r"^alloc::vec::Vec::push$") and any(e in str(callee_of(s).get("substs")) for e in enums):
                        pushes.append((x, s))
            ok_push = bool(pushes) and all(x.postdominates(s, (0, -1)) for x, s in pushes)
            r.check(len(built) == 1 and ok_push, b.id, "log:%s" % sorted(v for _, v in built), "%s logs exactly one event variant (%s) on every path" % (m, sorted(v for _, v in built)), "%s does not log exactly one event on every path (variants %s, pushes %d)" % (m, sorted(v for _, v in built), len(pushes)), b.loc())
            # the delegation chain from the trait method to the push is unconditional
            for s, tgt in prog.callees(b, include_closures=False, virtual_dispatch=False):
                if tgt.id in reach and any(x is tgt or tgt.id in prog.reachable_from([tgt], False) for x, _ in pushes if x.id in prog.reachable_from([tgt], False) or x is tgt):
                    r.check(b.postdominates(s, (0, -1)), b.id, "conditional-log", "the logging call is unconditional", "the logging call of %s is conditional" % m, s.loc())
    r.floor(n_buffered, 5, "buffered dynamic solvers")
    # replay functions: bodies with a closure (or loop) matching on the event enum and applying encoder operations
    replays = [(epath, upd, idx, b, sw) for epath, upd, idx, b, sw, kind in event_matches(prog) if kind == "replay"]
    r.floor(len(replays), 2, "replay matches (one per buffered encoder)")
    lifted = {}
    for epath, upd, idx, b, sw in replays:
        t = sw.node
        fn = prog.enclosing_fn(b)
        # the function holding the replay cursor: the one matching on the events, or the one that loops over the log and hands each
        # event to it
        for _ in range(3):
            if any(callee_matches(callee_of(s), r"^core::cell::Cell::(get|set)$") for y in prog.with_closures(fn) for s in y.calls()):
                break
            ups = {prog.enclosing_fn(cs.body).id: prog.enclosing_fn(cs.body) for cs in prog.callers_of(fn)}
            if len(ups) != 1:
                break
            fn = next(iter(ups.values()))
        lifted[b.id] = fn
        for val, bb in t["targets"]:
            vname = idx.get(val)
            if vname not in upd:
                continue
            methods = upd[vname]
            called = _ops_called(prog, b, _arm_region(b, sw, bb))
            want = set(methods)
            r.check(want <= called, "%s|%s" % (fn.id, vname), "replay-op:%s" % sorted(called & set(UPDATE_METHODS)), "replay of %s calls encoder operation %s" % (vname, sorted(want)), "replay of %s calls %s instead of %s" % (vname, sorted(called & set(UPDATE_METHODS)), sorted(want)), sw.loc())
        # cursor: a Cell<usize> field read to slice the log and set from the log length at the end
        gets = [s for s in fn.calls() if callee_matches(callee_of(s), r"^core::cell::Cell::get$")]
        sets = [s for s in fn.calls() if callee_matches(callee_of(s), r"^core::cell::Cell::set$")]
        ok_get = len(gets) >= 1
        ok_set = len(sets) == 1 and fn.postdominates(sets[0], (0, -1))
        set_from_len = False
        if sets:
            _, calls, _ = data_deps(fn, sets[0].node["args"][1])
            set_from_len = any(callee_matches(callee_of(c), r"^alloc::vec::Vec::len$") for c in calls)
        r.check(ok_get and ok_set and set_from_len, fn.id + "|cursor", "cursor", "replay starts at the cursor and sets it to the log length on every path", "the replay does not advance its cursor to the end of the log on every path (events would be replayed twice or skipped)", fn.loc())
    # queries replay before solving
    replay_paths = {lifted[b.id].path for _, _, _, b, _ in replays} | {prog.enclosing_fn(b).path for _, _, _, b, _ in replays}
    n_q = 0
    for imp in dyn_impls(prog):
        sadt = imp.get("self_adt")
        for tr in ("solvers::specs::CredulousAcceptanceComputer", "solvers::specs::SkepticalAcceptanceComputer"):
            for i2 in prog.impls_of_trait(tr):
                if i2.get("self_adt") != sadt:
                    continue
                for m in i2["methods"]:
                    qb0 = prog.lib(m["path"])
                    if qb0 is None:
                        continue
                    # the method itself and the private helpers of its type it calls (a helper shared by both query kinds)
                    group = [qb0]
                    for x in prog.reachable_from([qb0], virtual_dispatch=False).values():
                        if x is not qb0 and _in_query_group(x, sadt) and x not in group:
                            group.append(x)
                    counted = False
                    for qb in group:
                        solves = [s for s in qb.calls() if callee_matches(callee_of(s), r"SatSolver::solve(_under_assumptions)?$|maximal_extension_computer::MaximalExtensionComputer::compute_next$|maximal_extension_computer::new_for_preferred_semantics$")]
                        if not solves:
                            continue
                        if not counted:
                            n_q += 1
                            counted = True
                        reps = [s for s in qb.calls() if strip_generics(callee_name(callee_of(s)) or "") in {strip_generics(p) for p in replay_paths}]
                        ok = bool(reps) and all(any(qb.dominates(rp, s) for rp in reps) for s in solves)
                        if not ok and qb is not qb0:
                            # replayed by the entry point before it calls the helper
                            calls_h = [s for s in qb0.calls() if prog.body_for_callee(callee_of(s), qb0) is qb]
                            reps0 = [s for s in qb0.calls() if strip_generics(callee_name(callee_of(s)) or "") in {strip_generics(p) for p in replay_paths}]
                            ok = bool(calls_h) and all(any(qb0.dominates(rp, s) for rp in reps0) for s in calls_h)
                        r.check(ok, qb.id, "solve-before-replay", "pending updates are replayed before every SAT call of the query", "a SAT call of the query is not preceded by the replay of pending updates", qb.loc())
    r.floor(n_q, 5, "query methods with SAT calls in buffered dynamic solvers")


def _in_query_group(x, sadt):
    """a private helper the query may hand its SAT call to: a method of the solver's own type, or of another type of the dynamics module
    (the buffered encoder the solver holds) that is not a trait method"""
    if x.kind == "closure" or not x.impl or x.impl.get("trait"):
        return False
    sa_ = x.impl.get("self_adt") or ""
    return sa_ == sadt or sa_.startswith("dynamics::")


def rule_cache_kinds(ctx):
    """C08: a query consults only the cache of its own kind"""
    prog = ctx.prog
    r = ctx.rule(
        "cache-per-query-kind",
        "in the dynamic solvers a skeptical-acceptance method never reads the credulous answer cache and a credulous-acceptance method never reads "
        "the skeptical one (directly or through helpers): `refused credulously` does not imply `refused skeptically` when no extension exists, "
        "and the cached certificates answer different questions",
    )
    CRED, SKEP = "solvers::specs::CredulousAcceptanceComputer", "solvers::specs::SkepticalAcceptanceComputer"
    lookups = {"credulous": r"dynamics::.*BufferedDynamicConstraintsEncoder::<T>::is_credulously_accepted$|dynamics::.*BufferedDynamicConstraintsEncoder::is_credulously_accepted$", "skeptical": r"dynamics::.*BufferedDynamicConstraintsEncoder::<T>::is_skeptically_accepted$|dynamics::.*BufferedDynamicConstraintsEncoder::is_skeptically_accepted$"}
    n = n_look = 0
    for tr, mine, other in ((CRED, "credulous", "skeptical"), (SKEP, "skeptical", "credulous")):
        for imp in prog.impls_of_trait(tr):
            if not (imp.get("self_adt") or "").startswith("dynamics::"):
                continue
            for m in imp["methods"]:
                b = prog.lib(m["path"])
                if b is None:
                    continue
                n += 1
                from .accept import _const_reach

                # constant-aware: a helper shared by both kinds and told which one it serves (a bool or an enum constant) only
                # counts with the branches that constant selects
                _, edges = _const_reach(prog, [b])
                bad = []
                for x, s, _t in edges:
                    # stay inside the methods of this trait and the helpers: another acceptance trait's methods are judged on their own
                    if x.impl and x.impl.get("trait") in (CRED, SKEP) and x.impl.get("trait") != tr:
                        continue
                    if True:
                        nm = strip_generics(callee_name(callee_of(s)) or "")
                        if re.search(r"^dynamics::.*BufferedDynamicConstraintsEncoder::is_%s_accepted$" % ("credulously" if other == "credulous" else "skeptically"), nm):
                            bad.append(s)
                        if re.search(r"^dynamics::.*BufferedDynamicConstraintsEncoder::is_%s_accepted$" % ("credulously" if mine == "credulous" else "skeptically"), nm):
                            n_look += 1
                r.check(not bad, b.id, "reads-%s-cache" % other, "%s query reads only the %s cache" % (mine, mine), "the %s-acceptance method reads the %s answer cache: a cached answer to the other question decides this one" % (mine, other), bad[0].loc() if bad else b.loc())
    r.floor(n, 10, "acceptance methods of the dynamic solvers")
    r.floor(n_look, 4, "cache look-ups of the matching kind")


# ------------------------------------------------------------------------------------------
# the witness cached with a list of decided arguments fits every argument of the list (D10)


def rule_cached_witness_consistent(ctx):
    prog = ctx.prog
    from ..prov import prov, subterms

    r = ctx.rule(
        "cached-witness-fits-the-list",
        "a dynamic solver caches `refused skeptically: R, witness E` (resp. `accepted credulously: A, witness E`) and later hands E out as the "
        "certificate of every argument of the list: so R must be made of arguments E omits (A of arguments E contains) - both read off one SAT "
        "model, or the list explicitly cleared of E's members (restricted to them) before it is cached; a list accumulated over several "
        "extensions of a search with the witness of the last one does not qualify",
    )
    n = 0
    per_fn = {}
    for b in sorted(prog.lib_bodies(), key=lambda x: x.id):
        fn = prog.enclosing_fn(b)
        if not (fn.impl and (fn.impl.get("self_adt") or "").startswith("dynamics::")):
            continue
        for s in b.calls():
            nm = strip_generics(callee_name(callee_of(s)) or "")
            m = re.search(r"::add_(skeptical|credulous)_computation$", nm)
            if not m or len(s.node["args"]) < 4:
                continue
            kind = m.group(1)
            lst = s.node["args"][2] if kind == "skeptical" else s.node["args"][1]
            ext = s.node["args"][3]
            # is a witness handed over here at all?
            some = False
            for o in origins(b, ext, transparent=("core::clone::Clone::clone",)):
                if o.kind == "agg" and o.data.get("variant") == "Some":
                    some = True
                elif o.kind not in ("agg", "const"):
                    some = True
            k0 = op_const(lst)
            empty = False
            for o in origins(b, lst, transparent=()):
                if o.kind == "call" and callee_decl(o.data) in ("alloc::vec::Vec::new",):
                    empty = True
            if not some or empty:
                continue
            n += 1
            per_fn[fn.id] = per_fn.get(fn.id, 0) + 1
            anchor = "%s|%s#%d" % (fn.id, kind, per_fn[fn.id])
            ldeps, lcalls, _ = data_deps(b, lst)
            edeps, ecalls, _ = data_deps(b, ext)
            models = {l for l in (ldeps & edeps) if "sat::sat_solver::Assignment" in b.local_ty(l) or "sat::assignment::Assignment" in b.local_ty(l) or b.local_ty(l).endswith("Assignment")}
            if models:
                r.ok(anchor, "list and witness are read off one SAT model", s.loc())
                # ... with the right polarity: accepted credulously = true in the model, refused skeptically = not true in it
                pol = _model_list_polarity(prog, b, lst)
                want = "false" if kind == "skeptical" else "true"
                if pol is None:
                    r.ok(anchor + "|polarity", "NOT decided: how the list is filtered from the model is not recognised", s.loc())
                else:
                    r.check(pol == {want}, anchor + "|polarity", "list-polarity:%s" % sorted(pol), "the %s list holds the arguments %s in the model" % ("refused" if kind == "skeptical" else "accepted", "not true" if kind == "skeptical" else "true"), "the %s list cached with the witness holds the arguments that are %s in the model: a later query for one of them gets the witness as a certificate that %s it" % ("refused" if kind == "skeptical" else "accepted", " / ".join(sorted(pol)), "contains" if kind == "skeptical" else "omits"), s.loc())
                continue
            # explicit exclusion / restriction: a store `flags[id(member of the witness)] = false`, or a filter testing membership in the witness
            fitted = False
            for y in prog.with_closures(fn):
                for s2 in y.calls():
                    d2 = callee_decl(callee_of(s2))
                    if d2 == "core::ops::index::IndexMut::index_mut" and "bool" in str(callee_of(s2).get("substs")):
                        from .equiv import _stores_through

                        vals = [(op_const(o) or {}).get("bool") for o in _stores_through(y, s2)]
                        want = False if kind == "skeptical" else True
                        if want not in vals:
                            continue
                        for e in prov(prog, y, s2.node["args"][1]):
                            # index = id(each(<the witness>)): the iterated collection derives from the same value as `ext`
                            for t in subterms(e):
                                if isinstance(t, tuple) and t[0] == "elem":
                                    st2 = _site_in_fn(prog, fn, y, s2)
                                    # the clearing runs before the list is cached (on the paths that have a witness at all)
                                    if _same_source(prog, fn, t[1], b, ext) and st2 is not None and b is fn and st2.bb != s.bb and fn.reaches(st2.bb, s.bb) and not fn.reaches(s.bb, st2.bb):
                                        fitted = True
            r.check(fitted, anchor, "witness-may-not-fit", "the cached list is cleared of (restricted to) the witness's members", "the %s list cached with a witness is not tied to that witness: it is accumulated independently of it (e.g. over all the extensions a search visited) while the witness is one extension - a later query for a listed argument gets a certificate that %s it" % ("refused" if kind == "skeptical" else "accepted", "contains" if kind == "skeptical" else "omits"), s.loc())
    r.floor(n, 3, "cache insertions that carry a witness")


def _model_list_polarity(prog, b, lst):
    """{'true', 'false'}: which model values the elements kept in a list filtered from a model have; None when not recognised.
    Forms: `== / != Some(k)`, `match v { Some(true) => keep, .. }`, `filter(|(_, v)| v.unwrap_or(k))`, in `filter` / `filter_map`
    closures over the pairs of `Assignment::iter`; a closure of the chain that does not look at the value is neutral"""
    from ..prov import prov, subterms
    from .grounded import inherited_conditions, _cond_trees

    def value_of_elem(t):
        # `.1` (the value) of an element of the iteration, possibly its payload `.1.0`
        while isinstance(t, tuple) and t[0] == "field":
            if t[2] == "1" and isinstance(t[1], tuple) and t[1][0] == "elem":
                return True
            t = t[1]
        return False

    out = set()
    for e in prov(prog, b, lst):
        clos = [t for t in subterms(e) if isinstance(t, tuple) and t[0] == "call" and re.search(r"Iterator::(filter_map|filter)$", t[1]) and t[3]]
        if not clos:
            return None
        decided = False
        for cl in clos:
            clo = prog.by_target[b.target].get(cl[3][0]) or prog.lib(cl[3][0])
            if clo is None:
                return None
            is_fm = cl[1].endswith("filter_map")
            keeps = []
            if is_fm:
                for st in clo.sites():
                    nd = st.node
                    if st.si is not None and nd["k"] == "assign" and nd["rv"]["k"] == "aggregate" and nd["rv"]["agg"].get("variant") == "Some" and "Option" in str(nd["rv"]["agg"].get("path")):
                        if any(o.kind == "agg" and (o.site.bb, o.site.si) == (st.bb, st.si) for o in origins(clo, {"l": 0, "p": []}, transparent=())):
                            keeps.append(st.bb)
                # `Some(true) => lookup(..)` returns the callee's Option as it is: the call is the keep site
                for o in origins(clo, {"l": 0, "p": []}, transparent=()):
                    if o.kind == "call" and o.site is not None and o.site.node["dst"]["l"] == 0:
                        keeps.append(o.site.bb)
            else:
                # filter: the returned bool itself
                for r0 in prov(prog, clo, {"l": 0, "p": []}):
                    neg = False
                    while r0[0] == "op" and r0[1] == "Not":
                        neg = not neg
                        r0 = r0[2][0]
                    if r0[0] == "call" and re.search(r"Option::unwrap_or(_default)?$", r0[1]) and r0[2] and value_of_elem(r0[2][0]):
                        out.add("false" if neg else "true")
                        decided = True
                    elif r0[0] == "call" and re.search(r"PartialEq::(eq|ne)$", r0[1]) and len(r0[2]) == 2:
                        ks = [a[2][0][1] for a in r0[2] if a[0] == "agg" and a[1] == "Some" and len(a[2]) == 1 and a[2][0][0] == "const" and isinstance(a[2][0][1], bool)]
                        vals = [a for a in r0[2] if not (a[0] == "agg" and a[1] == "Some")]
                        if len(ks) == 1 and len(vals) == 1 and value_of_elem(vals[0]):
                            equal = r0[1].endswith("::eq") != neg
                            out.add(("true" if ks[0] else "false") if equal else ("false" if ks[0] else "true"))
                            decided = True
                    elif value_of_elem(r0) and r0[0] == "field" and r0[2] == "0":
                        out.add("false" if neg else "true")
                        decided = True
                    elif any(value_of_elem(t) for t in subterms(r0)):
                        return None
                continue
            looks = False
            for bb in keeps:
                found = None
                for c, t in _cond_trees(prog, inherited_conditions(prog, clo, bb)):
                    if c[0] == "call" and re.search(r"PartialEq::(eq|ne)$", c[1]) and len(c[2]) == 2:
                        ks = [a[2][0][1] for a in c[2] if a[0] == "agg" and a[1] == "Some" and len(a[2]) == 1 and a[2][0][0] == "const" and isinstance(a[2][0][1], bool)]
                        vals = [a for a in c[2] if not (a[0] == "agg" and a[1] == "Some")]
                        if len(ks) == 1 and len(vals) == 1 and any(isinstance(x, tuple) and x[0] == "elem" for x in subterms(vals[0])):
                            equal = t if c[1].endswith("::eq") else (not t)
                            found = ("true" if ks[0] else "false") if equal else ("false" if ks[0] else "true")
                    elif c[0] == "field" and c[2] == "0" and value_of_elem(c):
                        # the payload of `Some(b)` matched as a pattern
                        found = "true" if t else "false"
                    elif any(value_of_elem(x) for x in subterms(c)):
                        looks = True
                if found is not None:
                    out.add(found)
                    decided = True
                elif looks:
                    return None
        if not decided:
            return None
    return out or None


def _site_in_fn(prog, fn, y, s):
    """the site of fn at which the closure chain leading to y is created / called (s itself when y is fn)"""
    if y is fn:
        return s
    cur = y
    for _ in range(4):
        if not cur.parent:
            return None
        par = prog.by_target[cur.target].get(cur.parent["direct"])
        if par is None:
            return None
        site = None
        for cs in par.calls():
            c = callee_of(cs)
            if c is not None and cur.path in (c.get("fn_args") or []):
                site = cs
        if site is None:
            for st in par.sites():
                nd = st.node
                if st.si is not None and nd["k"] == "assign" and nd["rv"]["k"] == "aggregate" and nd["rv"]["agg"].get("path") == cur.path:
                    site = st
        if site is None:
            return None
        if par is fn:
            return site
        cur = par
    return None


def _same_source(prog, fn, tree, b, ext_op):
    """the iterated collection `tree` and the operand `ext_op` of body b come from the same computation: they share a call leaf"""
    from ..prov import prov, subterms

    def calls(e):
        return {(t[1], t[2]) for t in subterms(e) if isinstance(t, tuple) and t[0] == "call" and not re.search(r"clone$|to_vec$|Iterator::|into_iter$|iter$", t[1])}

    a = calls(tree)
    bset = set()
    for e in prov(prog, b, ext_op):
        bset |= calls(e)
    return bool(a & bset)


def _carries_encoder_assumptions(prog, b, op, depth=0):
    """the value derives from a call of the encoder's `assumptions()`, directly or through a local function that returns such a value"""
    _, calls, _ = data_deps(b, op)
    for c in calls:
        if re.search(r"::assumptions$", strip_generics(callee_name(callee_of(c)) or "")):
            return True
        t = prog.body_for_callee(callee_of(c), b) if callee_of(c) else None
        if t is not None and t.kind != "closure" and depth < 2 and "Literal" in t.ret_ty and _carries_encoder_assumptions(prog, t, {"l": 0, "p": []}, depth + 1):
            return True
    return False


def rule_encoder_assumptions_reach_sat_calls(ctx):
    """C08: the incremental encoders switch constraints on and off through assumptions; a SAT call that does not carry them answers for
    another framework"""
    prog = ctx.prog
    r = ctx.rule(
        "encoder-assumptions-reach-every-sat-call",
        "every SAT call a dynamic solver's query makes carries the current assumptions of its incremental encoder (`encoder.assumptions()`): "
        "directly in the assumption vector, or - for a search run by a MaximalExtensionComputer - handed to the computer with "
        "`set_additional_assumptions` before its first step, and appended by the computer to the assumptions of each of its SAT calls",
    )
    MEC = "solvers::maximal_extension_computer::MaximalExtensionComputer"
    n = 0
    for imp in dyn_impls(prog):
        sadt = imp.get("self_adt")
        for tr in ("solvers::specs::CredulousAcceptanceComputer", "solvers::specs::SkepticalAcceptanceComputer"):
            for i2 in prog.impls_of_trait(tr):
                if i2.get("self_adt") != sadt:
                    continue
                for m in i2["methods"]:
                    qb0 = prog.lib(m["path"])
                    if qb0 is None:
                        continue
                    group = [qb0] + [x for x in prog.reachable_from([qb0], virtual_dispatch=False).values() if x is not qb0 and _in_query_group(x, sadt)]
                    for qb in group:
                        uses_enc = any(re.search(r"::assumptions$", strip_generics(callee_name(callee_of(s)) or "")) for y in prog.with_closures(qb) for s in y.calls())
                        for s in qb.calls():
                            if callee_matches(callee_of(s), r"SatSolver::solve_under_assumptions$"):
                                n += 1
                                ok = _carries_encoder_assumptions(prog, qb, s.node["args"][1])
                                # ... read after the pending updates were encoded: `update_encoding` retires and creates the switches
                                _, acalls, _ = data_deps(qb, s.node["args"][1])
                                reads = [c for c in acalls if re.search(r"::assumptions$", strip_generics(callee_name(callee_of(c)) or ""))]
                                upds = [u for u in qb.calls() if re.search(r"::update_encoding$", strip_generics(callee_name(callee_of(u)) or ""))]
                                early = [(a, u) for a in reads for u in upds if a.bb != u.bb and qb.reaches(a.bb, u.bb) and not qb.reaches(u.bb, a.bb)]
                                if upds and reads:
                                    r.check(not early, "%s|solve|order" % qb.id, "assumptions-read-before-update", "the encoder's assumptions are read after update_encoding", "the encoder's assumptions are read *before* update_encoding applies the pending updates: the switches of constraints created or retired by these updates are missing from the SAT call (or stale ones are assumed)", early[0][0].loc() if early else s.loc())
                                r.check(ok, "%s|solve" % qb.id, "encoder-assumptions-missing", "the SAT call assumes encoder.assumptions()", "a SAT call of the query does not carry the encoder's current assumptions: constraints of removed arguments / attacks stay switched on (or those of present ones off)", s.loc())
                            elif callee_matches(callee_of(s), r"SatSolver::solve$"):
                                n += 1
                                r.violation("%s|solve" % qb.id, "encoder-assumptions-missing", "a dynamic solver's query calls solve() without assumptions: the incremental encoder's switches are ignored", s.loc())
                        # searches run by a computer
                        news = [s for s in qb.calls() if callee_matches(callee_of(s), r"maximal_extension_computer::new_for_\w+$|MaximalExtensionComputer::new$")]
                        if news:
                            n += 1
                            sets = [s for s in qb.calls() if callee_matches(callee_of(s), r"MaximalExtensionComputer::set_additional_assumptions$")]
                            steps = [s for s in qb.calls() if callee_matches(callee_of(s), r"MaximalExtensionComputer::(compute_next|compute_maximal)$")]
                            ok = False
                            for st in sets:
                                if _carries_encoder_assumptions(prog, qb, st.node["args"][1]) and all(qb.dominates(st, x) for x in steps):
                                    ok = True
                            r.check(ok, "%s|computer" % qb.id, "computer-without-encoder-assumptions", "the computer receives encoder.assumptions() before its first step", "the maximal-extension computer run by the query is not given the encoder's current assumptions before its first step", news[0].loc())
    r.floor(n, 5, "SAT calls / computers in the queries of the dynamic solvers")
    # the computer appends what it was given to every SAT call it makes
    setter = [b for b in prog.lib_bodies() if b.kind != "closure" and b.impl and b.impl.get("self_adt") == MEC and b.path.endswith("::set_additional_assumptions")]
    if r.require_anchor(setter, MEC + "::set_additional_assumptions"):
        fields = set()
        for s in setter[0].sites():
            nd = s.node
            if s.si is not None and nd["k"] == "assign" and nd["dst"]["l"] == 1 and place_fields(nd["dst"]):
                fields.add(str(place_fields(nd["dst"])[0]))
        k = 0
        for b in prog.lib_bodies():
            if b.kind == "closure" or not b.impl or b.impl.get("self_adt") != MEC:
                continue
            for s in b.calls():
                if callee_matches(callee_of(s), r"SatSolver::solve(_under_assumptions)?$"):
                    k += 1
                    got = _appended_self_fields(prog, b, s.node["args"][1], 0) if len(s.node["args"]) > 1 else set()
                    r.check(bool(fields) and fields <= got, "%s|sat-call" % b.id, "additional-assumptions-dropped", "the computer's SAT call carries the additional assumptions (%s)" % sorted(fields), "a SAT call of the maximal-extension computer does not carry the additional assumptions it was given: a search on a dynamic solver's shared SAT solver ignores the encoder's switches", s.loc())
        r.floor(k, 1, "SAT calls of the maximal-extension computer")


def _appended_self_fields(prog, b, vec_op, depth):
    """the fields of `self` (parameter 1) whose elements are appended to the vector `vec_op` of body b; follows a helper method that builds the vector"""
    from ..prov import prov as _prov, leaves as _leaves

    # elements, not just a capacity: an append / extend / chain onto the assumption vector whose source reads the field
    _T = ("core::ops::deref::Deref::deref", "core::ops::deref::DerefMut::deref_mut", "alloc::vec::Vec::as_slice", "core::convert::AsRef::as_ref", "core::borrow::Borrow::borrow")

    def _creation(op):
        return {(o.site.bb, o.site.si) for o in origins(b, op, transparent=_T) if o.kind == "call" and o.site is not None}

    got = set()
    vroots = _creation(vec_op)
    for c2 in b.calls():
        d2 = callee_decl(callee_of(c2))
        if re.search(r"concat$", d2 or "") and len(c2.node["args"]) == 1 and vroots & {(c2.bb, c2.si)}:
            for e in _prov(prog, b, c2.node["args"][0]):
                got |= {l[3][0] for l in _leaves(e) if l[0] == "param" and l[2] == 1 and l[3]}
        if d2 in ("alloc::vec::Vec::append", "core::iter::traits::collect::Extend::extend", "alloc::vec::Vec::extend_from_slice", "core::iter::traits::iterator::Iterator::chain", "alloc::slice::concat", "alloc::slice::<impl [T]>::concat") and len(c2.node["args"]) >= 2:
            r0 = _creation(c2.node["args"][0])
            if (r0 & vroots) or d2.endswith("chain") or d2.endswith("concat"):
                srcs = [c2.node["args"][1]] + ([c2.node["args"][0]] if d2.endswith("chain") or d2.endswith("concat") else [])
                for so in srcs:
                    for e in _prov(prog, b, so):
                        got |= {l[3][0] for l in _leaves(e) if l[0] == "param" and l[2] == 1 and l[3]}
        # the vector is built by a method of the same object, called on `self`
        if (c2.bb, c2.si) in vroots and depth < 2 and c2.node["args"]:
            t = prog.body_for_callee(callee_of(c2), b)
            if t is not None and t.kind != "closure" and t.impl and b.impl and t.impl.get("self_adt") == b.impl.get("self_adt"):
                o0 = origins(b, c2.node["args"][0], transparent=_T)
                if o0 and all(o.kind == "param" and o.data == 1 and not o.fields for o in o0):
                    got |= _appended_self_fields(prog, t, {"l": 0, "p": []}, depth + 1)
    return got


def rule_dynamic_query_polarity(ctx):
    """C08 / C02 / C03: what the SAT call of a dynamic solver's query asks, and how its verdict is read"""
    prog = ctx.prog
    from .. import tags

    r = ctx.rule(
        "dynamic-query-polarity",
        "a dynamic solver's own SAT call assumes the queried argument's literal as it is for a credulous query (a model is a witness: YES) and "
        "negated for a skeptical query (a model is a counterexample: NO); the status returned in the arm that has a model, and in the arm that "
        "has none, follows",
    )
    n = 0
    for imp in dyn_impls(prog):
        sadt = imp.get("self_adt")
        for tr, kind in (("solvers::specs::CredulousAcceptanceComputer", "credulous"), ("solvers::specs::SkepticalAcceptanceComputer", "skeptical")):
            for i2 in prog.impls_of_trait(tr):
                if i2.get("self_adt") != sadt:
                    continue
                for m in i2["methods"]:
                    qb0 = prog.lib(m["path"])
                    if qb0 is None:
                        continue
                    group = [qb0] + [x for x in prog.reachable_from([qb0], virtual_dispatch=False).values() if x is not qb0 and x.kind != "closure" and x.impl and x.impl.get("self_adt") == sadt and not x.impl.get("trait")]
                    for qb in group:
                        for s in qb.calls():
                            if not callee_matches(callee_of(s), r"SatSolver::solve_under_assumptions$"):
                                continue
                            anchor = "%s|query-literal" % qb.id
                            lits = tags.literals_of(prog, qb, s.node["args"][1], set())
                            argl = [l for l in lits if l.role == "ARG"]
                            n += 1
                            if qb is not qb0 and len({l.pos for l in argl}) > 1:
                                # a helper shared by the two kinds of query: judged once per constant its callers of this query hand it
                                from .. import shapes as shp
                                from ..core import excluded_blocks

                                argl = []
                                for y0 in prog.with_closures(qb0):
                                    for cs in y0.calls():
                                        if prog.body_for_callee(callee_of(cs), y0) is not qb:
                                            continue
                                        penv = {}
                                        for k, a in enumerate(cs.node["args"]):
                                            kc = op_const(a)
                                            if kc is not None and "bool" in kc:
                                                penv[k + 1] = kc["bool"]
                                            elif kc is not None and kc.get("variant"):
                                                penv[k + 1] = ("variant", kc["variant"])
                                        bad = shp.infeasible_blocks(prog, qb, penv) if penv else frozenset()
                                        with excluded_blocks(qb, bad):
                                            l2 = tags.literals_of(prog, qb, s.node["args"][1], set())
                                        argl += [l for l in l2 if l.role == "ARG"]
                                if len({l.pos for l in argl}) > 1 or not argl:
                                    r.ok(anchor, "NOT decided: the polarity of the queried literal is chosen by a parameter of %s the rule cannot evaluate" % qb.path.rsplit("::", 1)[-1], s.loc())
                                    continue
                            if not argl or any(l.pos is None for l in argl):
                                r.ok(anchor, "NOT decided: the queried argument's literal is not recognised among the assumptions (%s)" % lits, s.loc())
                                continue
                            want = kind == "credulous"
                            r.check(all(l.pos is want for l in argl), anchor, "query-literal:%s" % argl, "the %s query assumes the argument's literal %s" % (kind, "as it is" if want else "negated"), "the %s query assumes %s: it asks for %s" % (kind, argl, "an extension *without* the argument" if want else "an extension *with* the argument"), s.loc())
                            # the status returned with / without a model of this call
                            dst = s.node["dst"]["l"]
                            for st in qb.sites():
                                nd = st.node
                                if st.si is None or nd["k"] != "assign" or nd["dst"] != {"l": 0, "p": []} or nd["rv"]["k"] != "aggregate" or nd["rv"]["agg"].get("kind") != "tuple" or len(nd["rv"]["ops"]) != 2:
                                    continue
                                k = op_const(nd["rv"]["ops"][0])
                                if k is None or "bool" not in k:
                                    continue
                                arm = None
                                for c in conditions(qb, st.bb):
                                    if not c.is_discr or c.negated or len(c.values) != 1:
                                        continue
                                    if "Option<sat::sat_solver::Assignment>" not in qb.local_ty(c.place["l"]).replace("core::option::", ""):
                                        continue
                                    deps, _, _ = data_deps(qb, {"l": c.place["l"], "p": []})
                                    if dst in deps or c.place["l"] == dst:
                                        arm = "model" if c.values == ["1"] else "no model"
                                if arm is None:
                                    continue
                                n += 1
                                wanted = (arm == "model") == (kind == "credulous")
                                r.check(k["bool"] is wanted, "%s|status-with-%s" % (qb.id, arm.replace(" ", "-")), "status:%s" % k["bool"], "%s query: %s gives %s" % (kind, arm, wanted), "the %s query answers %s when the SAT call has %s" % (kind, str(k["bool"]).upper(), "a model" if arm == "model" else "no model"), st.loc())
    r.floor(n, 6, "SAT calls and verdict arms of the dynamic solvers' queries")


def rule_decoders_keep_true_variables(ctx):
    """C10 / C01 / C04: from a model to a set of arguments"""
    prog = ctx.prog
    from ..prov import prov, show, subterms
    from .splits import linear
    from .grounded import inherited_conditions, _cond_trees, _is_call

    r = ctx.rule(
        "decoders-keep-true-variables",
        "every `assignment_to_extension` (the four static encoders, the two dynamic encoders, the dynamic preferred solver's adaptor) keeps "
        "exactly the variables the model sets to true (`Some(true)` pattern, `== Some(true)`, `unwrap_or(false)`), and a decoder that tests an "
        "argument id against the framework's size tests `id < n`",
    )
    n = 0
    for b in sorted(prog.lib_bodies(), key=lambda x: x.id):
        if b.kind == "closure" or not b.path.endswith("assignment_to_extension") or "::tests::" in b.path:
            continue
        if not any(True for _ in b.calls()):
            continue
        trees = list(prov(prog, b, {"l": 0, "p": []}))
        if not any(_is_call(t, r"Assignment::iter$") for e in trees for t in subterms(e)):
            # delegation / unimplemented!()
            dl = [s for s in b.calls() if callee_decl(callee_of(s)).endswith("assignment_to_extension")]
            if dl:
                n += 1
                r.ok(b.id, "delegates to another decoder", b.loc())
            continue
        n += 1
        pol = _model_list_polarity(prog, b, {"l": 0, "p": []})
        if pol is None:
            r.ok(b.id, "NOT decided: how the model is filtered is not of a recognised form", b.loc())
        else:
            r.check(pol == {"true"}, b.id, "decoder-polarity:%s" % sorted(pol), "keeps the variables set to true", "the decoder keeps the variables that are %s in the model: the set handed back is not the one the model describes" % "/".join(sorted(pol)), b.loc())
        # the size test
        seen_conds = set()
        for y in prog.with_closures(b):
            sites = [s for s in y.calls() if callee_decl(callee_of(s)).endswith("get_argument_by_id")]
            for st in y.sites():
                nd = st.node
                if st.si is not None and nd["k"] == "assign" and nd["rv"]["k"] == "aggregate" and nd["rv"]["agg"].get("variant") == "Some":
                    sites.append(st)
            for s in sites:
                for c, t in _cond_trees(prog, inherited_conditions(prog, y, s.bb)):
                    if (repr(c), t) in seen_conds:
                        continue
                    seen_conds.add((repr(c), t))
                    if c[0] == "op" and c[1] in ("Lt", "Le", "Gt", "Ge") and len(c[2]) == 2:
                        def atom(x):
                            if _is_call(x, r"n_arguments$|ArgumentSet::len$"):
                                return "n"
                            if x[0] in ("elem", "field", "call") and not _is_call(x, r"n_arguments$|ArgumentSet::len$") and any(isinstance(z, tuple) and z[0] == "elem" for z in subterms(x)) and not (x[0] == "field" and x[1][0] == "op"):
                                return "id"
                            return None
                        a_, b_ = linear(c[2][0], atom), linear(c[2][1], atom)
                        if a_ is None or b_ is None:
                            continue
                        d = dict(a_)
                        for k, v in b_.items():
                            d[k] = d.get(k, 0) - v
                        d = {k: v for k, v in d.items() if v != 0}
                        k0 = d.pop(1, 0)
                        op = c[1] if t else {"Lt": "Ge", "Le": "Gt", "Gt": "Le", "Ge": "Lt"}[c[1]]
                        if d == {"id": -1, "n": 1}:
                            op = {"Lt": "Gt", "Le": "Ge", "Gt": "Lt", "Ge": "Le"}[op]
                            k0 = -k0
                        elif d != {"id": 1, "n": -1}:
                            continue
                        # id - n + k0 op 0
                        ok = (op == "Lt" and k0 == 0) or (op == "Le" and k0 == 1)
                        n += 1
                        r.check(ok, b.id + "|bound", "decoder-bound:%s%+d" % (op, k0), "an id is decoded when id < n", "the decoder keeps an argument id when `id - n %+d %s 0`, not when id < n: the argument with the last id is dropped (or an id beyond the framework is looked up)" % (k0, {"Lt": "<", "Le": "<=", "Gt": ">", "Ge": ">="}[op]), s.loc())
    r.floor(n, 6, "decoders from models to argument sets")


def rule_witnessless_cache_hits(ctx):
    """C08: answering from the cache without a witness"""
    prog = ctx.prog
    from ..prov import prov, show, subterms, leaves

    r = ctx.rule(
        "witnessless-cache-hits",
        "a dynamic solver answers from its cache without a witness (a look-up result `(Some(status), None)`) only if every list it caches for "
        "that kind of answer is proved: made of the queried argument itself. A list accumulated from flags of a search (`in all the maximal sets "
        "*visited*`) is only a candidate list: the search discards sets without growing them, so the list over-approximates the accepted arguments",
    )
    n = 0
    for imp in dyn_impls(prog):
        sadt = imp.get("self_adt")
        methods = []
        for tr in ("solvers::specs::CredulousAcceptanceComputer", "solvers::specs::SkepticalAcceptanceComputer"):
            for i2 in prog.impls_of_trait(tr):
                if i2.get("self_adt") == sadt:
                    for m in i2["methods"]:
                        b = prog.lib(m["path"])
                        if b is not None:
                            methods.append(b)
        group = list(methods)
        for b in methods:
            for x in prog.reachable_from([b], virtual_dispatch=False).values():
                if x.kind != "closure" and x not in group and x.impl and x.impl.get("self_adt") == sadt and not x.impl.get("trait"):
                    group.append(x)
        # lists cached without a witness: accepted of a skeptical computation, refused of a credulous one
        unproved = {}
        for b in group:
            for y in prog.with_closures(b):
                for s in y.calls():
                    nm = strip_generics(callee_name(callee_of(s)) or "")
                    m = re.search(r"::add_(skeptical|credulous)_computation$", nm)
                    if not m or len(s.node["args"]) < 4:
                        continue
                    kind = m.group(1)
                    lst = s.node["args"][1] if kind == "skeptical" else s.node["args"][2]
                    for e in prov(prog, y, lst):
                        # proved forms: the empty vector; `vec![arg.clone()]` with arg an element of the method's list parameter
                        calls = [t for t in subterms(e) if isinstance(t, tuple) and t[0] == "call"]
                        empty = e[0] == "call" and re.search(r"Vec::new$|Vec::<.*>::new$", e[1]) is not None
                        queried = bool(calls) and all(re.search(r"box_assume_init_into_vec_unsafe$|new_uninit$|Box.*::new$|write$|slice::.*into_vec$", t[1]) for t in calls)
                        params = {l for l in leaves(e) if l[0] == "param"}
                        if empty:
                            continue
                        if not queried or any(l[0] in ("?", "var") for l in leaves(e)) or len(e) == 0:
                            unproved.setdefault(kind, []).append((s, e))
        # uses of witness-less hits
        for b in group:
            for s in b.calls():
                nm = strip_generics(callee_name(callee_of(s)) or "")
                m = re.search(r"::is_(skeptically|credulously)_accepted$", nm)
                if not m or not re.match(r"^\(core::option::Option<bool>", b.local_ty(s.node["dst"]["l"])):
                    continue
                kind = "skeptical" if m.group(1) == "skeptically" else "credulous"
                L = s.node["dst"]["l"]
                for st in b.sites():
                    nd = st.node
                    if st.si is None or nd["k"] != "assign" or nd["dst"] != {"l": 0, "p": []}:
                        continue
                    cs = [c for c in conditions(b, st.bb) if c.is_discr and c.place["l"] == L and c.place["p"]]
                    first_some = any(str(place_fields(c.place)[0]) == "0" and not c.negated and c.values == ["1"] for c in cs if place_fields(c.place))
                    second_some = any(str(place_fields(c.place)[0]) == "1" and not c.negated and c.values == ["1"] for c in cs if place_fields(c.place))
                    if not first_some or second_some:
                        continue
                    n += 1
                    anchor = "%s|%s-hit" % (b.id, kind)
                    bad = unproved.get(kind)
                    if bad:
                        r.violation(anchor, "hit-on-candidate-list", "the %s query answers from the cache without a witness, but the list this solver caches for such answers (%s) is not made of proved arguments: it is accumulated during a search that does not visit every extension" % (kind, show(bad[0][1])[:80]), st.loc())
                    else:
                        r.ok(anchor, "answers without a witness from lists made of the queried argument only", st.loc())
        if unproved:
            n += 1
            k0 = sorted(unproved)[0]
            r.ok("%s|lists" % sadt, "%s caches a candidate list without a witness (%s answers); no query uses it without a witness" % (sadt.rsplit("::", 1)[-1], k0) if True else "", unproved[k0][0][0].loc())
    if n == 0:
        r.ok("cache", "no dynamic solver answers from its cache without a witness, and none caches a candidate list", None)


def rule_cache_answer_polarity(ctx):
    """C04 / C08: what a cache look-up answers from which list of a record"""
    prog = ctx.prog
    r = ctx.rule(
        "cache-answer-polarity",
        "in the cache look-ups of the buffered dynamic encoders an answer `Some(true)` is given for a label found in a record's list of "
        "*accepted* arguments and `Some(false)` for one found in its list of *refused* arguments (whatever the kind of the record): a look-up "
        "that answers YES from a refused list hands out, as a certificate, an extension that omits the argument",
    )
    looks = [b for b in prog.lib_bodies() if b.kind != "closure" and re.search(r"^dynamics::.*BufferedDynamicConstraintsEncoder::(<T>::)?is_(credulously|skeptically)_accepted$", strip_generics(b.path))]
    if not r.require_anchor(looks, "cache look-ups of the buffered dynamic encoders"):
        return
    bodies = {}
    for b in looks:
        for x in prog.reachable_from([b], virtual_dispatch=False).values():
            fx = prog.enclosing_fn(x)
            if fx.path.startswith("dynamics::") or "<dynamics::" in fx.path.split(" as ")[0]:
                for y in prog.with_closures(x):
                    bodies[y.id] = y
    n = 0
    for y in sorted(bodies.values(), key=lambda z: z.id):
        for st in y.sites():
            nd = st.node
            if st.si is None or nd["k"] != "assign" or nd["rv"]["k"] != "aggregate" or nd["rv"]["agg"].get("variant") != "Some" or nd["rv"]["agg"].get("path") != "core::option::Option":
                continue
            k = op_const(nd["rv"]["ops"][0]) if nd["rv"]["ops"] else None
            if k is None or "bool" not in k:
                continue
            lists = set()
            for c in conditions(y, st.bb):
                if c.is_discr or not c.is_true():
                    continue
                for o in origins(y, c.place, transparent=()):
                    if o.kind == "call" and re.search(r"slice::.*contains$|Vec.*::contains$|HashSet.*::contains$", callee_decl(o.data) or ""):
                        for oo in origins(y, o.site.node["args"][0], transparent=("core::ops::deref::Deref::deref", "alloc::vec::Vec::as_slice")):
                            for f in oo.fields or []:
                                lists.add(str(f))
            acc = any("accept" in f for f in lists)
            ref = any("refus" in f or "reject" in f for f in lists)
            if not lists:
                continue
            n += 1
            anchor = "%s|Some(%s)@%s" % (y.id, k["bool"], ",".join(sorted(lists)))
            if acc == ref:
                r.ok(anchor, "NOT decided: the list governing this answer is not named as accepted / refused (%s)" % sorted(lists), st.loc())
            else:
                r.check(k["bool"] is acc, anchor, "answer-from-the-other-list", "Some(%s) is answered from the list of %s arguments" % (k["bool"], "accepted" if acc else "refused"), "the look-up answers Some(%s) for a label found in the list of %s arguments of a record: the answer (and the extension handed out with it as a certificate) contradicts what was proved" % (k["bool"], "accepted" if acc else "refused"), st.loc())
    r.floor(n, 4, "answers of the cache look-ups governed by a list of a record")
