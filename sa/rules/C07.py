"""C07 - multi-argument queries are answered as disjunctions"""
from . import accept


def run(ctx):
    accept.rule_lists_are_disjunctions(ctx)
    accept.rule_delegation_pairs(ctx)
    accept.rule_list_quantifiers(ctx)
    accept.rule_every_listed_argument(ctx)
    accept.rule_single_member_read_guarded(ctx)
    from . import invariance
    invariance.rule_component_traversal(ctx)  # a list spread over several components: every component is merged in
    invariance.rule_component_extraction(ctx)  # ... searched from every listed argument
    from . import progress as _progress
    _progress.rule_query_scoped_decomposition(ctx)  # what is merged is the query list itself
    ctx.assume("modelled std functions of sa/tags.py (iterator adaptors, Vec push/append, vec!, iter::once/chain); everything else is reported as `cannot analyse`")
    ctx.assume("SAT semantics: a clause is a disjunction, assumptions are a conjunction")
    return (
        "F6 tag propagation (literal role x polarity x list completeness) from ConstraintsEncoder::arg_to_lit to every SAT sink reachable from the "
        "static acceptance methods, for all paths and list lengths at once; F5 delegation table for the with/without-certificate pairs. Decides that "
        "lists are encoded as disjunctions over the whole list; the statuses themselves are not decided."
    )
