"""C04 - certificates are valid witnesses and appear exactly when promised (shape + assembly clauses)"""
from . import dynalloc, accept, provenance, dyn, dyncnf, cli, progress


def run(ctx):
    accept.rule_certificate_shapes(ctx)
    accept.rule_status_certificate_pairing(ctx)
    accept.rule_certificate_completion(ctx)
    accept.rule_every_component_contributes(ctx)
    accept.rule_completion_semantics(ctx)
    accept.rule_no_shortcut_with_certificate(ctx)
    provenance.rule_argument_provenance(ctx)
    provenance.rule_ownership(ctx)
    provenance.rule_encoded_framework_is_searched(ctx)
    provenance.rule_range_encoding(ctx)
    dyn.rule_cache_barriers(ctx)
    accept.rule_membership_answers(ctx)
    accept.rule_certificate_from_maximal_state(ctx)
    dynalloc.rule_id_indexed_vectors(ctx)
    dyn.rule_cached_witness_consistent(ctx)
    dyn.rule_cache_answer_polarity(ctx)
    dyncnf.rule_dynamic_variable_registration(ctx)
    dyncnf.rule_removal_cleans_the_tables(ctx)
    from . import dyn as _dyn
    _dyn.rule_decoders_keep_true_variables(ctx)
    progress.rule_local_selector_retired(ctx)  # a query clause that outlives its query constrains the searches whose result becomes a certificate
    cli.rule_encoder_selection(ctx)  # DC-PR certificates are complete extensions only if the credulous PR path gets the complete encoder
    ctx.assume("rustc's MIR / borrow checker; summaries of sa/shapes.py (bool/Option/tuple shapes, callee summaries, relational restriction by dominating conditions)")
    return (
        "F5 return-shape summaries of all 24 *_with_certificate impls (static and dynamic, through helpers, caches and dyn dispatch) against the "
        "contract table; F2 must-pass-through of the completion loop on every Some(certificate) path; F4 guard of the non-maximal shortcut and the "
        "constant passed by the certificate entry point; F6 provenance of ids at get_argument_by_id sites and type-level ownership. Decides when a "
        "certificate appears and how it is assembled; that the assembled set is an extension is a value clause and is not decided."
    )
