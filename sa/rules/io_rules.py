"""Rules on readers and writers (src/io), shared by C05, C13 and C14."""
import re

from ..core import (
    is_try_residual,
    Site,
    callee_of,
    callee_is,
    callee_name,
    callee_decl,
    callee_matches,
    strip_generics,
    op_place,
    op_const,
    origins,
    data_deps,
    derives_from_local,
    place_fields,
    switch_sites,
    TRANSPARENT_CALLS,
)
from ..flow import conditions, consumers, switch_subject
from ..fmtq import format_sites, template_str
from .. import engine

RW = "io::specs::ResponseWriter"
READER = "io::specs::InstanceReader"

# reference languages of the property statement (constants of the checker, never derived from the code)
IDENT_MIN = r"[_A-Za-z][_A-Za-z0-9]*"
IDENT_MAX = r"[_\p{L}][_\p{L}\p{Nd}]*"
REF = {
    "arg": {
        "MIN": r"^\s*arg\(\s*%s\s*\)\.\s*$" % IDENT_MIN,
        "MAX": r"^\s*arg\(\s*%s\s*\)\.\s*$" % IDENT_MAX,
        "WRITER": r"^arg\(%s\)\.$" % IDENT_MIN,
    },
    "att": {
        "MIN": r"^\s*att\(\s*%s\s*,\s*%s\s*\)\.\s*$" % (IDENT_MIN, IDENT_MIN),
        "MAX": r"^\s*att\(\s*%s\s*,\s*%s\s*\)\.\s*$" % (IDENT_MAX, IDENT_MAX),
        "WRITER": r"^att\(%s,%s\)\.$" % (IDENT_MIN, IDENT_MIN),
    },
}


# ------------------------------------------------------------------------------------------
# answer grammar (C14.3, C05)


def _writes(prog, b):
    """format sites of b and its closures whose fmt::Arguments is consumed by Write::write_fmt, with
    the other calls made on the `dyn Write` parameter"""
    out = []
    other = []
    for x in prog.with_closures(b):
        for fs in format_sites(x):
            cs = [c for c in consumers(x, fs.result_local) if c.kind == "call"]
            if any(callee_matches(c.info[0], r"^std::io::Write::write_fmt$") for c in cs):
                out.append(fs)
        for s in x.calls():
            c = callee_of(s)
            if c and c.get("trait") == "std::io::Write" and not callee_matches(c, r"write_fmt$"):
                other.append((s, strip_generics(c["decl"]).rsplit("::", 1)[-1]))
    return out, other


ANSWER_REF = {
    # (method, label kind) -> (MIN, MAX, LOOSE): every string of MIN must be writable, nothing outside MAX may be written.
    # \x01 stands for one displayed label.  Constants of the checker (from the property statement), never derived from the code.
    # LOOSE is the upper bound used when the extraction met a branch it could not evaluate (the extracted language then
    # over-approximates the outputs): a violation of MAX that stays inside LOOSE is reported as "not decided".
    ("write_no_extension", "*"): (r"NO\n", r"NO\n", r"NO\n"),
    ("write_acceptance_status", "*"): (r"(?:YES|NO)\n", r"(?:YES|NO)\n", r"(?:YES|NO)\n"),
    ("write_single_extension", "usize"): (r"w(?: \x01)*\n", r"w(?: \x01)*\n", r"w(?: \x01)*\n"),
    ("write_single_extension", "other"): (r"\[(?:\x01(?:,\x01)*)?\]\n", r"\[(?:\x01(?:,\x01)*)?\]\n", r"\[(?:,?\x01)*\]\n"),
}


def _flush_last(prog, b, depth=0):
    """every non-error return value derives from the result of Write::flush (possibly in a local
    helper the writer is delegated to)"""
    srcs = origins(b, {"l": 0, "p": []}, transparent=())
    ok = False
    for o in srcs:
        if o.kind == "call":
            if is_try_residual(o.data):
                continue
            tgt = prog.body_for_callee(o.data, b) if o.data.get("decl") != "<indirect>" else None
            if tgt is not None and tgt.kind != "closure" and tgt.path.startswith("io::") and depth < 3 and any("dyn std::io::Write" in tgt.local_ty(i) for i in range(1, tgt.n_args + 1)):
                if _flush_last(prog, tgt, depth + 1):
                    ok = True
                    continue
                return False
            _, calls, _ = data_deps(b, {"l": 0, "p": []})
            if any(callee_matches(callee_of(c), r"^std::io::Write::flush$") for c in calls if c.bb == o.site.bb or b.dominates(c, o.site)):
                ok = True
            else:
                return False
        elif o.kind == "agg" and o.data.get("variant") == "Ok":
            # Ok(()) after `writer.flush()?`
            flushes = [s for s in b.calls() if callee_matches(callee_of(s), r"^std::io::Write::flush$")]
            if flushes and all(b.dominates(f, o.site) for f in flushes[:1]):
                ok = True
            else:
                return False
        elif o.kind == "agg" and o.data.get("variant") == "Err":
            continue
        else:
            return False
    return ok


def rule_answer_grammar(ctx):
    from .. import outlang

    prog = ctx.prog
    r = ctx.rule(
        "answer-grammar",
        "the regular language a response writer can emit on its writer (extracted from its control-flow graph: format templates, write_all / "
        "String-building contents, helpers and per-element closures inlined, a displayed label = one symbol) lies between the reference "
        "languages of the answer grammar: `w` + ` label`* + newline (ICCMA'23), `[` + labels separated by `,` + `]` newline (Aspartix), "
        "`NO` newline, `YES`|`NO` newline chosen by the status; the first member has no separator; each function flushes before returning Ok",
    )
    impls = prog.impls_of_trait(RW)
    if not r.require_anchor(impls, "impls of " + RW):
        return
    r.floor(len(impls), 2, "ResponseWriter impls")
    outlang.clear_cache()
    n_dec = 0
    n_und = 0
    for imp in impls:
        mt = re.search(r"ResponseWriter<(.+)>>$", imp.get("trait_ref") or "")
        label_ty = mt.group(1).strip() if mt else "?"
        for m in imp["methods"]:
            b = prog.lib(m["path"])
            if b is None or m["name"] not in ("write_no_extension", "write_acceptance_status", "write_single_extension"):
                continue
            anchor = "%s|%s" % (imp["self_ty"], m["name"])
            ref = ANSWER_REF.get((m["name"], "*")) or ANSWER_REF.get((m["name"], "usize" if label_ty == "usize" else "other"))
            wparams = [i for i in range(1, b.n_args + 1) if "dyn std::io::Write" in b.local_ty(i)]
            if not r.require_anchor(len(wparams) == 1, "the `&mut dyn Write` parameter of %s" % b.path):
                continue
            _no_short_write(prog, r, anchor, _io_reach(prog, b))
            outlang.clear_cache()
            try:
                lang = outlang.sink_language(prog, b, ("param", wparams[0]))
            except outlang.Undecided as e:
                r.ok(anchor, "output language not extracted (%s): NOT decided for this method" % e, b.loc())
                n_und += 1
                continue
            imprecise = outlang.imprecise()
            if re.fullmatch(r"[()?:]*", lang or ""):
                # nothing is written to the sink as far as the extraction sees: if the sink was handed to an object (a line writer built
                # around it) whose methods do the writing, those writes were not followed
                handed = []
                for y in prog.with_closures(b):
                    for s_ in y.calls():
                        t_ = prog.body_for_callee(callee_of(s_), y) if callee_of(s_) else None
                        if t_ is not None and t_.kind != "closure" and any(derives_from_local(y, a_, wparams[0]) for a_ in s_.node["args"] if op_place(a_) is not None) and y is b:
                            handed.append(t_)
                if handed:
                    r.ok(anchor, "output language not extracted: the sink is handed to %s and written through an object built around it: NOT decided for this method" % handed[0].path.rsplit("::", 1)[-1], b.loc())
                    n_und += 1
                    continue
            n_dec += 1
            L = "^(?:%s)$" % lang
            lo, hi, loose = ("^(?:%s)$" % x for x in ref)
            w = _wit([lo], [L])
            r.check(w.get("witness") is None and "error" not in w, anchor, "cannot-write:%r" % w.get("witness"), "every answer of the grammar can be written (reference <= L = %s)" % lang, "the writer cannot produce %r (its output language is %s) %s" % (w.get("witness"), lang, w.get("error", "")), b.loc())
            w = _wit([L], [loose])
            if not r.check(w.get("witness") is None and "error" not in w, anchor, "writes-outside-grammar:%r" % w.get("witness"), "nothing outside the token structure of the answer grammar can be written (L <= %s)" % ref[2], "the writer can produce %r, which is outside the answer grammar (its output language is %s) %s" % (w.get("witness"), lang, w.get("error", "")), b.loc()):
                continue
            w = _wit([L], [hi])
            if w.get("witness") is None and "error" not in w:
                r.ok(anchor, "nothing outside the answer grammar can be written (L <= %s)" % ref[1], b.loc())
            elif imprecise:
                r.ok(anchor, "the extracted language exceeds the grammar by %r, but the extraction met branches it cannot evaluate (%s): separator placement NOT decided" % (w.get("witness"), imprecise[:2]), b.loc())
            else:
                r.violation(anchor, "writes-outside-grammar:%r" % w.get("witness"), "the writer can produce %r, which is outside the answer grammar (its output language is %s)" % (w.get("witness"), lang), b.loc())
            fss = []
            for x in prog.reachable_from([b]).values():
                if x.path.startswith("io::") or "<io::" in x.path.split(" as ")[0]:
                    for fs in format_sites(x):
                        cs = [c for c in consumers(x, fs.result_local) if c.kind == "call"]
                        if any(callee_matches(c.info[0], r"^std::io::Write::write_fmt$") for c in cs):
                            fss.append(fs)
            if m["name"] == "write_acceptance_status":
                words = {}
                tfs = [fs for fs in fss if fs.template == "{}\n" and fs.args and fs.args[0]]
                if len(tfs) == 1:
                    # the displayed value is a constant chosen by the bool parameter
                    fb = tfs[0].body
                    seen, _, consts = data_deps(fb, tfs[0].args[0][1], through_calls=False)
                    for s in fb.sites():
                        n = s.node
                        if s.si is not None and n["k"] == "assign" and n["dst"]["l"] in seen and n["rv"]["k"] == "use":
                            k = op_const(n["rv"]["ops"][0])
                            if k is not None and "str" in k:
                                truth = None
                                for c in conditions(fb, s.bb):
                                    if not c.is_discr and fb.local_ty(c.place["l"]) == "bool":
                                        for o in origins(fb, c.place, transparent=()):
                                            if o.kind == "param":
                                                truth = c.is_true()
                                words[k["str"]] = truth
                    r.check(words == {"YES": True, "NO": False}, anchor, "status-words=%s" % sorted(words.items(), key=str), "writes `YES` for true and `NO` for false", "write_acceptance_status chooses its word by %s" % words, b.loc())
                else:
                    r.ok(anchor + "|words", "status word not chosen through a single `{}` template: word/status pairing NOT decided", b.loc())
            r.check(_flush_last(prog, b), anchor, "no-flush", "the function flushes before returning Ok", "the function can return Ok without flushing the writer", b.loc())
    r.floor(n_dec + n_und, 4, "writer methods examined (output language extracted, or reported as not decided)")
    if n_und:
        r.note("%d writer method(s) build their text in a way the extraction does not follow: NOT decided for them" % n_und)


def rule_status_before_witness(ctx):
    prog = ctx.prog
    r = ctx.rule("status-before-witness", "the acceptance writer of the solve command emits the status line before the optional witness line")
    n = 0
    for t in prog.bin_targets():
        for b in prog.bodies_in(t):
            st = [s for s in b.calls() if (callee_of(s) or {}).get("trait") == RW and callee_matches(callee_of(s), r"write_acceptance_status$")]
            wt = [s for s in b.calls() if (callee_of(s) or {}).get("trait") == RW and callee_matches(callee_of(s), r"write_single_extension$")]
            if st and wt:
                n += 1
                r.check(all(b.dominates(st[0], w) for w in wt), "%s|%s" % (t, b.path), "witness-first", "status is written before the witness", "the witness can be written before the status", st[0].loc())
    r.floor(n, 2, "acceptance writer closures")
    # the single-extension writer: `NO` when there is no extension, the extension otherwise - chosen by the Option it receives
    from ..flow import on_some_arm, on_none_arm

    n2 = 0
    for t in prog.bin_targets():
        for b in prog.bodies_in(t):
            st = [s for s in b.calls() if (callee_of(s) or {}).get("trait") == RW and callee_matches(callee_of(s), r"write_acceptance_status$")]
            wt = [s for s in b.calls() if (callee_of(s) or {}).get("trait") == RW and callee_matches(callee_of(s), r"write_single_extension$")]
            ne = [s for s in b.calls() if (callee_of(s) or {}).get("trait") == RW and callee_matches(callee_of(s), r"write_no_extension$")]
            if st or not (wt or ne):
                continue
            # a body that writes an extension without a status: the SE writer
            opt_params = [i for i in range(1, b.n_args + 1) if b.local_ty(i).startswith("core::option::Option<alloc::vec::Vec<")]
            if not opt_params:
                continue
            n2 += 1
            anchor = "%s|%s|single-extension-writer" % (t, b.path)

            def arm_ok(sites, pred):
                for s in sites:
                    for c in conditions(b, s.bb):
                        if pred(c) and any(o.kind == "param" and o.data in opt_params for o in origins(b, c.place, transparent=())):
                            return True
                return False

            r.check(bool(ne) and arm_ok(ne, on_none_arm), anchor, "no-extension-not-written", "`NO` is written exactly when the solver returned no extension (None arm)", "the single-extension writer does not write the no-extension answer on the None arm: a missing extension is printed as an (empty) extension", b.loc())
            r.check(bool(wt) and arm_ok(wt, on_some_arm), anchor, "extension-not-on-some-arm", "the extension line is written on the Some arm", "the extension line is not written under the Some arm of the solver's answer", b.loc())
    r.floor(n2, 2, "single-extension writer closures")


# ------------------------------------------------------------------------------------------
# Aspartix writer (C14.1, C14.2)


FRAMEWORK_REF = r"(?:arg\(\x01\)\.\n)*(?:att\(\x01,\x01\)\.\n)*"


def _io_reach(prog, b):
    """bodies of src/io reachable from b (helpers and closures the writer is made of)"""
    return [x for x in prog.reachable_from([b], virtual_dispatch=False).values() if x.path.startswith("io::") or "<io::" in x.path.split(" as ")[0]]


def _no_short_write(prog, r, anchor, bodies):
    """`Write::write` may accept only a prefix of the buffer: a writer must use write_all / write! / writeln!"""
    short = [s for x in bodies for s in x.calls() if callee_of(s) and callee_decl(callee_of(s)) in ("std::io::Write::write", "std::io::Write::write_vectored")]
    r.check(not short, anchor, "short-write", "no bare Write::write (which may accept only part of the buffer)", "the text is handed to Write::write, which may write only a prefix of it (pipes, slow sinks): the rest of the line is lost while the method returns Ok", short[0].loc() if short else None)


def _staged_text_kept(prog, r, anchor, bodies):
    """A writer may gather its text in a local byte buffer; what it then does to that buffer decides whether every line
    reaches the sink.  Decided form: `buffer.clear()` dominated by `write_all` calls fed from the same buffer - at least one of
    them must hand over the whole buffer (no index / range / split between the buffer and the call).  Other forms (drain,
    truncate, a copy of the tail taken before the clear) are reported as not decided."""
    part = r"(^core::ops::index::Index(Mut)?::index(_mut)?$|::get(_mut)?$|::split_at(_mut)?$|::split_first$|::split_last$|::first$|::last$)"
    n = 0
    for x in bodies:
        for s in x.calls():
            c = callee_of(s)
            if not callee_matches(c, r"^alloc::(vec::Vec|string::String)::clear$"):
                continue
            p0 = op_place(s.node["args"][0]) if s.node["args"] else None
            if p0 is None:
                continue
            roots, _, _ = data_deps(x, s.node["args"][0], through_calls=False)
            roots = {l for l in roots if re.search(r"alloc::(vec::Vec<u8|string::String)", x.local_ty(l))}
            if not roots:
                continue
            feeds = []
            for w in x.calls():
                if not callee_matches(callee_of(w), r"^std::io::Write::write_all$") or len(w.node["args"]) < 2:
                    continue
                locs, calls, _ = data_deps(x, w.node["args"][1])
                if not (set(locs) & roots) or not x.dominates(w, s):
                    continue
                partial = [k for k in calls if callee_matches(callee_of(k), part) and "RangeFull" not in (callee_of(k)["decl"] + (callee_of(k).get("resolved") or ""))]
                feeds.append((w, partial))
            if not feeds:
                continue
            n += 1
            fed = {(k.bb, k.si) for _, pl in feeds for k in pl}
            other = [k for k in x.calls() if callee_matches(callee_of(k), part + r"|::(to_vec|to_owned|clone|split_off|drain|extend_from_within)$") and (k.bb, k.si) not in fed and x.dominates(k, s) and k.node["args"] and (set(data_deps(x, k.node["args"][0], through_calls=False)[0]) & roots)]
            whole = [w for w, pl in feeds if not pl]
            if whole or other:
                r.ok(anchor + "|staged-text", "the staging buffer is cleared after %s" % ("the whole of it was handed to the sink" if whole else "part of it was written and the rest read elsewhere: NOT decided"), s.loc())
            else:
                r.violation(anchor, "staged-text-dropped", "the staging buffer is cleared although only a slice of it (%s) was handed to the sink before: the text after that slice is lost, the re-read framework lacks those declarations" % ", ".join(sorted({callee_decl(callee_of(k)).rsplit("::", 2)[-2] + "::" + callee_decl(callee_of(k)).rsplit("::", 1)[-1] for _, pl in feeds for k in pl})), s.loc())
    return n


def rule_framework_writer(ctx):
    from .. import outlang

    prog = ctx.prog
    r = ctx.rule(
        "framework-writer",
        "the language write_framework can emit (extracted from its control-flow graph, helpers inlined) is exactly `arg(label).` lines followed by "
        "`att(label,label).` lines, one declaration per line; the lines come from ArgumentSet::iter and AAFramework::iter_attacks (the iterators "
        "that skip removed items) and from no by-id / per-argument accessor; an attack is printed as (attacker, attacked); the writer is flushed",
    )
    cands = [b for b in prog.lib_bodies() if b.kind != "closure" and re.search(r"^io::aspartix_writer::AspartixWriter::write_framework$", strip_generics(b.path))]
    if not r.require_anchor(len(cands) == 1, "io::aspartix_writer::AspartixWriter::write_framework"):
        return None
    b = cands[0]
    bodies = _io_reach(prog, b)
    wparams = [i for i in range(1, b.n_args + 1) if "dyn std::io::Write" in b.local_ty(i)]
    fss = []
    for x in bodies:
        for fs in format_sites(x):
            cs = [c for c in consumers(x, fs.result_local) if c.kind == "call"]
            if any(callee_matches(c.info[0], r"^std::io::Write::write_fmt$|^core::fmt::Write::write_fmt$|^alloc::fmt::format") for c in cs):
                fss.append(fs)
    outlang.clear_cache()
    try:
        lang = outlang.sink_language(prog, b, ("param", wparams[0])) if wparams else None
        if lang is None:
            raise outlang.Undecided("no `dyn Write` parameter")
        if re.fullmatch(r"[()?:]*", lang or ""):
            for s_ in b.calls():
                t_ = prog.body_for_callee(callee_of(s_), b) if callee_of(s_) else None
                if t_ is not None and t_.kind != "closure" and any(derives_from_local(b, a_, wparams[0]) for a_ in s_.node["args"] if op_place(a_) is not None):
                    raise outlang.Undecided("the sink is handed to %s and written through an object built around it" % t_.path.rsplit("::", 1)[-1])
        L, REFX = "^(?:%s)$" % lang, "^(?:%s)$" % FRAMEWORK_REF
        w1, w2 = _wit([REFX], [L]), _wit([L], [REFX])
        r.check(w1.get("witness") is None and "error" not in w1, b.id, "cannot-write:%r" % w1.get("witness"), "every framework text of the grammar can be written (L = %s)" % lang, "the framework writer cannot produce %r (its output language is %s) %s" % (w1.get("witness"), lang, w1.get("error", "")), b.loc())
        r.check(w2.get("witness") is None and "error" not in w2, b.id, "writes-outside-grammar:%r" % w2.get("witness"), "nothing but `arg(..).` lines followed by `att(..,..).` lines can be written", "the framework writer can produce %r, which is not a sequence of argument declarations followed by attack declarations (its output language is %s)" % (w2.get("witness"), lang), b.loc())
    except outlang.Undecided as e:
        r.ok(b.id, "output language not extracted (%s): line grammar NOT decided here" % e, b.loc())
    # sources: only the whole-collection iterators that skip tombstones
    used = {}
    for x in bodies:
        for s in x.calls():
            c = callee_of(s)
            if c and callee_matches(c, r"^aa::(aa_framework::AAFramework|arguments::ArgumentSet)::"):
                used.setdefault(strip_generics(callee_name(c)).rsplit("::", 1)[-1], s)
    allowed = {"argument_set", "iter", "iter_attacks"}
    extra = sorted(set(used) - allowed)
    r.check(not extra, b.id, "sources:%s" % extra, "arguments and attacks come from ArgumentSet::iter / AAFramework::iter_attacks only (%s)" % sorted(used), "the framework writer also uses %s: declarations are no longer one per live argument / live attack" % extra, used[extra[0]].loc() if extra else b.loc())
    reorder = []
    for x in bodies:
        for s in x.calls():
            d = callee_decl(callee_of(s)) if callee_of(s) else ""
            if re.search(r"(::sort(_unstable)?(_by(_key)?|_by_cached_key)?$|::reverse$|Iterator::rev$|::dedup(_by(_key)?)?$|::retain$|Iterator::(filter|filter_map|skip|take|step_by|skip_while|take_while)$|^alloc::collections::|^std::collections::)", d):
                reorder.append((s, d))
    r.check(not reorder, b.id, "reordered:%s" % sorted({d.rsplit("::", 1)[-1] for _, d in reorder}), "declarations are written in the iterators' order, none skipped (no sort / rev / filter / set collection in the writer)", "the framework writer reorders or filters the declarations (%s): reading the text back gives other ids / another framework" % sorted({d for _, d in reorder}), reorder[0][0].loc() if reorder else b.loc())
    _no_short_write(prog, r, b.id, bodies)
    _staged_text_kept(prog, r, b.id, bodies)
    r.check("iter" in used and "iter_attacks" in used, b.id, "arg-source" if "iter" not in used else "att-source", "both ArgumentSet::iter and AAFramework::iter_attacks are iterated", "the writer does not iterate %s" % ("ArgumentSet::iter" if "iter" not in used else "AAFramework::iter_attacks"), b.loc())
    # attacker first, attacked second
    atts = [fs for fs in fss if fs.template.startswith("att(")]
    if len(atts) == 1 and len(atts[0].args) == 2 and all(atts[0].args):
        ft = atts[0]

        def which(op):
            _, calls, _ = data_deps(ft.body, op)
            return {strip_generics(callee_name(callee_of(c))).rsplit("::", 1)[-1] for c in calls if callee_matches(callee_of(c), r"aa_framework::Attack::(attacker|attacked)$")}

        r.check(which(ft.args[0][1]) == {"attacker"} and which(ft.args[1][1]) == {"attacked"}, b.id, "att-order", "an attack is written as att(attacker,attacked)", "the attack line does not print (attacker, attacked) in this order", ft.site.loc())
    else:
        r.ok(b.id + "|att-order", "attack lines are not written through one `att({},{})` template: argument order NOT decided", b.loc())
    flushes = [s for x in bodies for s in x.calls() if callee_matches(callee_of(s), r"^std::io::Write::flush$")]
    r.check(bool(flushes), b.id, "no-flush", "the writer is flushed", loc=b.loc())
    return [fs for fs in fss if fs.template.startswith("arg(") or fs.template.startswith("att(")]


# ------------------------------------------------------------------------------------------
# Aspartix reader grammar (C13.1, C14.1)


def regex_statics(prog):
    """{static path: pattern text} for every lazy static initialised with Regex::new"""
    out = {}
    for b in prog.lib_bodies():
        if not b.ret_ty.endswith("regex::regex::string::Regex"):
            continue
        for s in b.calls():
            if not callee_matches(callee_of(s), r"^regex::regex::string::Regex::new$"):
                continue
            pat = None
            for o in origins(b, s.node["args"][0]):
                if o.kind == "const" and "str" in o.data:
                    pat = o.data["str"]
                elif o.kind == "call" and callee_matches(o.data, r"^alloc::fmt::format$"):
                    for fs in format_sites(b):
                        vals = []
                        okv = True
                        for a in fs.args:
                            v = None
                            if a is not None:
                                for oo in origins(b, a[1]):
                                    if oo.kind == "const" and "str" in oo.data:
                                        v = oo.data["str"]
                            if v is None:
                                okv = False
                            vals.append(v)
                        if okv:
                            txt = ""
                            for p in fs.pieces:
                                txt += p[1] if p[0] == "lit" else vals[p[1]]
                            pat = txt
            m = re.match(r"^<(.+) as core::ops::deref::Deref>::deref", b.path)
            key = m.group(1) if m else b.path
            out[key] = pat
    return out


def regex_uses(prog, b, method):
    """statics on which Regex::<method> is called in body b"""
    out = []
    for s in b.calls():
        if callee_matches(callee_of(s), r"^regex::regex::string::Regex::%s$" % method):
            for o in origins(b, s.node["args"][0], transparent=()):
                if o.kind == "call":
                    m = re.match(r"^<(.+) as core::ops::deref::Deref>::deref$", strip_generics(callee_name(o.data)))
                    if m:
                        out.append((s, m.group(1)))
    return out


def aspartix_line_readers(prog):
    """{kind: (body, line pattern, names pattern)} for the two-stage line readers"""
    pats = regex_statics(prog)
    out = {}
    for b in prog.lib_bodies():
        im = regex_uses(prog, b, "is_match")
        cp = regex_uses(prog, b, "captures")
        if len(im) == 1 and len(cp) == 1:
            lp, np_ = pats.get(im[0][1]), pats.get(cp[0][1])
            if lp is None or np_ is None:
                continue
            kind = "arg" if "arg" in lp else ("att" if "att" in lp else None)
            if kind:
                out[kind] = (b, lp, np_, im[0][0], cp[0][0])
    return out, pats


def _wit(pos, neg=()):
    return engine.relang({"pos": list(pos), "neg": list(neg)})


def rule_aspartix_grammar(ctx):
    prog = ctx.prog
    r = ctx.rule(
        "aspartix-grammar",
        "accepted declaration language A = L(line pattern) & L(names pattern) is sandwiched between fixed reference languages: "
        "MIN (identifier declarations any tool writes) <= A <= MAX (one word, no leading digit, literal dot); arg and att languages are disjoint; "
        "a line passing stage 1 but not stage 2 is an error; a non-blank line matching neither is an error",
    )
    readers, pats = aspartix_line_readers(prog)
    if not r.require_anchor(set(readers) == {"arg", "att"}, "two-stage line readers (Regex::is_match then Regex::captures)"):
        return None
    r.check(all(v is not None for v in pats.values()) and len(pats) >= 4, "regex-statics", "unresolved-pattern", "all %d regex constants resolved" % len(pats), "a regex pattern could not be resolved to a constant")
    acc = {}
    for kind, (b, lp, np_, s_im, s_cp) in sorted(readers.items()):
        acc[kind] = [lp, np_]
        ref = REF[kind]
        w = _wit([ref["MIN"]], [lp, np_])
        r.check(w.get("witness") is None and "error" not in w, b.id + "|complete", "rejects:%r" % w.get("witness"), "every well-formed %s declaration is accepted (MIN <= A, %d product states)" % (kind, w.get("states", 0)), "a well-formed declaration is rejected: %r (%s)" % (w.get("witness"), w.get("error", "")), b.loc())
        w = _wit([lp, np_], [ref["MAX"]])
        r.check(w.get("witness") is None and "error" not in w, b.id + "|sound", "accepts-outside-MAX", "nothing outside the %s grammar is read as a declaration (A <= MAX, %d product states)" % (kind, w.get("states", 0)), "a line outside the Aspartix grammar is read as a declaration: %r" % w.get("witness"), b.loc())
        # stage-2 failure is an error
        sw = None
        errs = [s for s in b.sites() if s.si is not None and s.node["k"] == "assign" and s.node["rv"]["k"] == "aggregate" and s.node["rv"]["agg"].get("variant") == "Err"]
        none_err = False
        for e in errs:
            for c in conditions(b, e.bb):
                if c.is_discr and ((not c.negated and c.values == ["0"]) or (c.negated and c.values == ["1"])):
                    for o in origins(b, c.place, transparent=()):
                        if o.kind == "call" and o.site.bb == s_cp.bb:
                            none_err = True
        r.check(none_err, b.id + "|stage2", "stage2-not-error", "a line with the declaration shape but invalid names is an error", "a line that passes the shape test but fails the name test is skipped instead of rejected", b.loc())
        # group count / consumer
        g = engine.relang({"op": "groups", "pattern": np_})
        ngroups = len(g.get("groups", []))
        idxs = []
        for s in b.calls():
            c = callee_of(s)
            t = prog.body_for_callee(c, b) if c else None
            if t is not None and any(callee_matches(callee_of(x), r"^regex::regex::string::Captures::get$") for x in t.calls()):
                k = op_const(s.node["args"][1])
                idxs.append(k.get("int") if k else None)
        want = [1] if kind == "arg" else [1, 2]
        r.check(sorted(i for i in idxs if i is not None) == want and ngroups == len(want), b.id + "|groups", "groups=%d used=%s" % (ngroups, idxs), "capture groups %s of %d are read" % (want, ngroups), "capture groups read %s do not match the %d groups of the pattern" % (idxs, ngroups), b.loc())
        # each group is `\s*<name>\s*` and the consumer trims
        for gi in g.get("groups", []):
            gp = gi["pattern"]
            w1 = _wit(["^(?:%s)$" % gp], [r"^\s*%s\s*$" % IDENT_MAX])
            r.check(w1.get("witness") is None, b.id + "|group%d" % gi["index"], "group-shape", "group %d captures a name with optional surrounding blanks" % gi["index"], "capture group %d can capture %r" % (gi["index"], w1.get("witness")), b.loc())
    # the consumer of a captured group trims it
    for b in prog.lib_bodies():
        if any(callee_matches(callee_of(x), r"^regex::regex::string::Captures::get$") for x in b.calls()):
            trims = [x for x in b.calls() if callee_matches(callee_of(x), r"^core::str::trim$")]
            ok = False
            for o in origins(b, {"l": 0, "p": []}, transparent=()):
                pass
            # every value stored in the result derives from the trimmed string
            res_aggs = [s for s in b.sites() if s.si is not None and s.node["k"] == "assign" and s.node["rv"]["k"] == "aggregate" and s.node["rv"]["agg"]["kind"] == "adt" and s.node["rv"]["agg"]["path"].endswith("WarningResult")]
            ok = bool(res_aggs) and bool(trims)
            for s in res_aggs:
                _, calls, _ = data_deps(b, s.node["rv"]["ops"][0])
                if not any(callee_matches(callee_of(c), r"^core::str::trim$") for c in calls):
                    ok = False
            r.check(ok, b.id, "untrimmed-name", "captured names are trimmed before use", "a captured argument name is used without trimming its surrounding blanks", b.loc())
    # disjointness
    w = _wit(acc["arg"] + acc["att"])
    r.check(w.get("witness") is None, "arg-vs-att", "overlap:%r" % w.get("witness"), "no line is both an arg and an att declaration", "a line is both an arg and an att declaration: %r" % w.get("witness"))
    w = _wit([readers["arg"][1], readers["att"][1]])
    r.check(w.get("witness") is None, "arg-vs-att|stage1", "overlap:%r" % w.get("witness"), "stage-1 shapes are disjoint", "a line has both declaration shapes: %r" % w.get("witness"))
    # read loop: non-blank line matching neither -> Err ; arg after att -> Err ; undeclared argument -> Err propagated
    rd = None
    for imp, b in prog.impl_methods(READER, "read"):
        if any(strip_generics(callee_name(callee_of(s)) or "") == strip_generics(readers["arg"][0].path) for s in b.calls()):
            rd = b
    if rd is None:
        for imp, b in prog.impl_methods(READER, "read"):
            hs = [x for x in prog.reachable_from([b], virtual_dispatch=False).values() if x is not b and x.kind != "closure" and any(strip_generics(callee_name(callee_of(s)) or "") == strip_generics(readers["arg"][0].path) for s in x.calls())]
            if hs:
                r.ok("read-loop", "NOT decided: the line readers are called by %s, a helper of the reader (the three errors of the read loop are judged in a `read` that calls the line readers itself)" % hs[0].path.rsplit("::", 1)[-1], hs[0].loc())
                return readers
    if r.require_anchor(rd, "InstanceReader::read calling the Aspartix line readers"):
        tmpls = [fs.template for fs in format_sites(rd)]
        msgs = set()
        for s in rd.calls():
            if callee_matches(callee_of(s), r"^core::fmt::Arguments::from_str$"):
                k = op_const(s.node["args"][0])
                if k and "str" in k:
                    msgs.add(k["str"])
        # structural: an Err aggregate after both readers returned None
        errs = [s for s in rd.sites() if s.si is not None and s.node["k"] == "assign" and s.node["rv"]["k"] == "aggregate" and s.node["rv"]["agg"].get("variant") == "Err" and s.node["rv"]["agg"].get("path") == "core::result::Result"]
        calls_arg = [s for s in rd.calls() if strip_generics(callee_name(callee_of(s)) or "") == strip_generics(readers["arg"][0].path)]
        calls_att = [s for s in rd.calls() if strip_generics(callee_name(callee_of(s)) or "") == strip_generics(readers["att"][0].path)]
        neither = False
        arg_after_att = False
        for e in errs:
            cs = conditions(rd, e.bb)
            nones = 0
            some_arg = False
            for c in cs:
                if c.is_discr and not c.negated:
                    for o in origins(rd, c.place, transparent=("core::ops::try_trait::Try::branch", "anyhow::Context::with_context", "anyhow::Context::context")):
                        if o.kind == "call" and calls_arg and o.site.bb == calls_arg[0].bb:
                            if c.values == ["0"]:
                                nones += 1
                            if c.values == ["1"]:
                                some_arg = True
                        if o.kind == "call" and calls_att and o.site.bb == calls_att[0].bb and c.values == ["0"]:
                            nones += 1
            if nones >= 2:
                neither = True
            if some_arg:
                arg_after_att = True
        r.check(neither, rd.id + "|syntax-error", "no-syntax-error", "a non-blank line that is neither declaration is an error", "a non-blank line that is neither an arg nor an att declaration is not rejected", rd.loc())
        r.check(arg_after_att, rd.id + "|arg-after-att", "no-order-error", "an argument declared after an attack is an error", "an argument declaration after an attack is not rejected", rd.loc())
        # attacks are inserted by label and the error is propagated
        na = [s for s in rd.calls() if callee_matches(callee_of(s), r"^aa::aa_framework::AAFramework::new_attack$")]
        okp = False
        for s in na:
            cs = [c for c in consumers(rd, s.node["dst"]["l"]) if c.kind == "call"]
            chain = set()
            work = list(cs)
            while work:
                c = work.pop()
                nm = strip_generics(c.info[0]["decl"]) if c.info[0] else ""
                chain.add(nm)
                if re.search(r"Context::(with_context|context)$", nm):
                    work += [x for x in consumers(rd, c.site.node["dst"]["l"]) if x.kind == "call"]
            if any(x.endswith("Try::branch") for x in chain):
                okp = True
        r.check(bool(na) and okp, rd.id + "|undeclared", "undeclared-not-propagated", "attacks are inserted by label and an undeclared argument is reported with `?`", "the error of inserting an attack on an undeclared argument is not propagated", rd.loc())
        # operands: (first captured name, second captured name) in order
    return readers


def rule_writer_in_reader(ctx, writer_fss, readers):
    prog = ctx.prog
    r = ctx.rule(
        "writer-subset-of-reader",
        "every line the framework writer can emit for valid Aspartix identifiers is accepted by the reader as the same kind of declaration",
    )
    if writer_fss is None or not readers:
        r.violation("anchor", "missing", "cannot analyse: writer templates or reader patterns missing")
        return
    if not writer_fss:
        r.ok("writer", "NOT decided: write_framework builds its lines without format templates handed to the writer (the line language is judged by framework-writer where it can be extracted)", None)
        return
    for fs in writer_fss:
        kind = fs.template[:3]
        if kind not in readers:
            continue
        # instantiate the template with the identifier language
        lit = ""
        for p in fs.pieces:
            if p[0] == "lit":
                lit += re.sub(r"([().\[\]\\^$*+?{}|])", r"\\\1", p[1].rstrip("\n"))
            else:
                lit += IDENT_MIN
        wl = "^%s$" % lit
        _, lp, np_, _, _ = readers[kind]
        w = _wit([wl], [lp, np_])
        r.check(w.get("witness") is None and "error" not in w, "writer|" + kind, "unreadable:%r" % w.get("witness"), "written %s lines %s are accepted by the reader" % (kind, wl), "the writer can emit %r, which the reader rejects" % w.get("witness"), fs.site.loc())
        other = "att" if kind == "arg" else "arg"
        w = _wit([wl, readers[other][1]])
        r.check(w.get("witness") is None, "writer|" + kind + "|kind", "misread", "a written %s line is never read as %s" % (kind, other), loc=fs.site.loc())
        r.check(fs.template.endswith("\n"), "writer|" + kind + "|line", "no-newline", "one declaration per line", loc=fs.site.loc())
