"""C18 (progress obligations): every satisfiable step is blocked before the next SAT call; bounded
call structure for CO / ST; early exit of the ideal enumeration."""
import re

from ..core import Site, callee_of, callee_decl, callee_matches, callee_name, strip_generics, op_place, op_const, origins, data_deps, place_fields, switch_sites
from ..flow import conditions, switch_subject
from .. import tags
from ..shapes import _field_of_local

MEC = "solvers::maximal_extension_computer::MaximalExtensionComputer"
SOLVE = r"sat_solver::SatSolver::solve(_under_assumptions)?$"


def installed_closures(prog):
    """[(setter name, closure body, installing fn)] for closures handed to MaximalExtensionComputer::set_*"""
    out = []
    for b in prog.lib_bodies():
        for s in b.calls():
            c = callee_of(s)
            d = callee_decl(c)
            m = re.search(r"MaximalExtensionComputer::set_(increase_current_fn|discard_current_fn|discard_maximal_fn)$", d)
            if not m:
                continue
            # the boxed closure: Box::new(closure) possibly cloned
            seen, calls, _ = data_deps(b, s.node["args"][1])
            n0 = len(out)
            cands = [x for x in b.sites() if x.si is not None and x.node["k"] == "assign" and x.node["rv"]["k"] == "aggregate" and x.node["rv"]["agg"].get("kind") == "closure" and x.node["dst"]["l"] in seen]
            # a closure captured by the installed one (a shared `forbid(..)` both callbacks call) is not itself installed
            inner = set()
            for x in cands:
                for opx in x.node["rv"]["ops"]:
                    sx, _, _ = data_deps(b, opx)
                    inner |= {y.node["dst"]["l"] for y in cands if y is not x and y.node["dst"]["l"] in sx}
            for x in cands:
                nd = x.node
                if nd["dst"]["l"] in inner:
                    continue
                if True:
                    cb = prog.lib(nd["rv"]["agg"]["path"])
                    if cb is not None:
                        out.append((m.group(1), cb, b, s))
            if len(out) == n0:
                # the boxed closure is made by a named function (`set_x_fn(make_x_fn(solver))`): the closure that function returns
                for o in origins(b, s.node["args"][1], transparent=("core::clone::Clone::clone",)):
                    if o.kind != "call":
                        continue
                    mk = prog.body_for_callee(o.data, b)
                    if mk is None or mk.kind == "closure" or "Box<dyn" not in mk.ret_ty.replace("alloc::boxed::", ""):
                        continue
                    rseen, _, _ = data_deps(mk, {"l": 0, "p": []})
                    for x in mk.sites():
                        nd = x.node
                        if x.si is not None and nd["k"] == "assign" and nd["rv"]["k"] == "aggregate" and nd["rv"]["agg"].get("kind") == "closure" and nd["dst"]["l"] in rseen:
                            cb = prog.lib(nd["rv"]["agg"]["path"])
                            if cb is not None:
                                out.append((m.group(1), cb, b, s))
    return out

from ..prov import prov as _prov  # noqa: E402


def splitter_roles(prog, fn):
    """for a function returning (Vec<Literal>, Vec<Literal>): {tuple index: 'members' | 'complement' | 'mixed'} from the
    polarity of the membership test guarding the pushes"""
    roles = {}
    # the returned tuple's component locals
    comps = {}
    for o in origins(fn, {"l": 0, "p": []}, transparent=()):
        if o.kind == "agg" and o.data["kind"] == "tuple":
            for i, op in enumerate(o.site.node["rv"]["ops"]):
                p = op_place(op)
                if p is not None:
                    # follow moves
                    seen, _, _ = data_deps(fn, op, through_calls=False)
                    comps[i] = {l for l in seen if fn.local_ty(l).startswith("alloc::vec::Vec<sat::sat_solver::Literal")}
    for i, locals_ in comps.items():
        pol = set()
        # direct pushes and pushes in closures capturing the vector
        for x in prog.with_closures(fn):
            for s in x.calls():
                if callee_decl(callee_of(s)) != "alloc::vec::Vec::push":
                    continue
                target = None
                if x is fn:
                    sd, _, _ = data_deps(fn, s.node["args"][0], through_calls=False)
                    if sd & locals_:
                        target = True
                else:
                    for o in origins(x, s.node["args"][0], transparent=("core::ops::deref::DerefMut::deref_mut",)):
                        if o.kind == "upvar":
                            par, cop = tags._closure_capture_operand(prog, x, o.data)
                            if cop is not None and par is fn:
                                sd, _, _ = data_deps(fn, cop, through_calls=False)
                                if sd & locals_:
                                    target = True
                if not target:
                    continue
                # membership test guarding the push: a bool read from a Vec<bool> / a comparison with Some(false)
                found = None
                for c in conditions(x, s.bb):
                    if c.is_discr:
                        continue
                    ty = x.local_ty(c.place["l"])
                    srcs = origins(x, c.place, transparent=())
                    is_flag = any(o.kind in ("param", "upvar", "unknown") or (o.kind == "call" and callee_decl(o.data) in ("core::ops::index::Index::index", "core::iter::traits::iterator::Iterator::next")) for o in srcs) and ty.replace("&", "") == "bool"
                    cmps = [o for o in srcs if o.kind == "call" and callee_decl(o.data) in ("core::cmp::PartialEq::eq", "core::cmp::PartialEq::ne")]
                    if is_flag:
                        found = "members" if c.is_true() else ("complement" if c.is_false() else None)
                    elif cmps:
                        # m.value_of(i) == Some(false)  -> true branch = not in range; the compared constant and eq / ne decide
                        o = cmps[0]
                        consts = set()
                        for a in o.site.node["args"]:
                            for e in _prov(prog, x, a):
                                if e[0] == "agg" and e[1] == "Some" and len(e[2]) == 1 and e[2][0][0] == "const" and isinstance(e[2][0][1], bool):
                                    consts.add(e[2][0][1])
                        truth = True if c.is_true() else (False if c.is_false() else None)
                        if len(consts) == 1 and truth is not None:
                            k = next(iter(consts))
                            equal = truth if callee_decl(o.data).endswith("::eq") else not truth
                            # equal to Some(k): the value is k; different from Some(k): the value is not k (an unassigned variable sides with "not k")
                            found = ("members" if k else "complement") if equal else ("complement" if k else "members")
                        else:
                            found = None
                pol.add(found)
        if pol == {"members"}:
            roles[i] = "members"
        elif pol == {"complement"}:
            roles[i] = "complement"
        elif None in pol or not pol:
            roles[i] = "undecided"
        else:
            roles[i] = "mixed:%s" % sorted(str(p) for p in pol)
    return roles


def rule_blocking(ctx):
    prog = ctx.prog
    r = ctx.rule(
        "blocking-clauses",
        "every increase / discard function installed on a MaximalExtensionComputer adds, on all its paths, a clause made of the *complement* "
        "literals of the current set (or range) and the positive selector; an increase function returns the member literals plus the negated "
        "selector; a fresh search assumes the negated selector; the same-range acceptance search assumes the positive selector",
    )
    inst = installed_closures(prog)
    if not r.require_anchor(inst, "closures installed with MaximalExtensionComputer::set_*"):
        return
    r.floor(len(inst), 6, "installed increase/discard closures")
    seen_cb = set()
    for kind, cb, ib, site in inst:
        if (kind, cb.id) in seen_cb:
            continue
        seen_cb.add((kind, cb.id))
        anchor = "%s|%s" % (cb.id, kind)
        adds = [s for s in cb.calls() if callee_matches(callee_of(s), r"sat_solver::SatSolver::add_clause$")]
        if not adds:
            # the closure hands the work to a named function / method that adds the clause: its body is not followed
            deleg = [t for _, t in prog.callees(cb, include_closures=False, virtual_dispatch=False) if t.kind != "closure" and any(callee_matches(callee_of(x), r"sat_solver::SatSolver::add_clause$") for y in prog.reachable_from([t], virtual_dispatch=False).values() for x in y.calls())]
            if deleg:
                r.ok(anchor, "NOT decided: the %s function delegates to %s, which adds the clause" % (kind, deleg[0].path.rsplit("::", 1)[-1]), cb.loc())
                continue
            # ... or to a closure it captured (one `forbid(..)` shared by the installed callbacks)
            shared = []
            for x in cb.calls():
                if callee_matches(callee_of(x), r"ops::function::(Fn::call|FnMut::call_mut|FnOnce::call_once)$") and x.node["args"]:
                    if any(o.kind == "upvar" for o in origins(cb, x.node["args"][0], transparent=("core::ops::deref::Deref::deref",))):
                        shared.append(x)
            sib = [y for y in prog.lib_bodies() if y.kind == "closure" and y is not cb and prog.enclosing_fn(y) is prog.enclosing_fn(cb) and any(callee_matches(callee_of(z), r"sat_solver::SatSolver::add_clause$") for z in y.calls())]
            if shared and sib:
                r.ok(anchor, "NOT decided: the %s function calls a closure it captured (%s adds a clause), which is not followed" % (kind, sib[0].path.rsplit("::", 1)[-1]), cb.loc())
                continue
        if not r.check(len(adds) == 1 and cb.postdominates(adds[0], (0, -1)), anchor, "no-blocking-clause", "adds exactly one clause on every path", "the %s function does not add a blocking clause on every path: the same set can be found again" % kind, cb.loc()):
            continue
        a = adds[0]
        lits = tags.literals_of(prog, cb, a.node["args"][1], set())
        has_sel = any(l.role == "SEL" and l.pos for l in lits)
        r.check(has_sel and not any(l.role == "SEL" and l.pos is False for l in lits), anchor, "selector:%s" % [l for l in lits if l.role == "SEL"], "the blocking clause carries the positive selector", "the blocking clause does not carry the positive selector (it cannot be switched off for same-range searches / retired)", a.loc())
        # the clause vector = complement component of the splitter
        base = None
        work = [a.node["args"][1]]
        for _ in range(4):
            nxt = []
            for opx in work:
                for o in origins(cb, opx, transparent=()):
                    if o.kind == "call":
                        t = prog.body_for_callee(o.data, cb)
                        if t is not None and o.fields:
                            base = (t, int(str(o.fields[0])) if str(o.fields[0]).isdigit() else None)
                        elif t is not None and t.kind != "closure" and not o.fields:
                            # a helper that hands one of its vector parameters back (after pushing onto it)
                            for ro in origins(t, {"l": 0, "p": []}, transparent=()):
                                if ro.kind == "param" and ro.data - 1 < len(o.site.node["args"]) and "Vec<sat::sat_solver::Literal>" in t.local_ty(ro.data):
                                    nxt.append(o.site.node["args"][ro.data - 1])
            if base is not None or not nxt:
                break
            work = nxt
        if r.check(base is not None and base[1] is not None, anchor, "no-splitter", "the clause is a component of a splitter's result", "cannot relate the blocking clause to the member / complement split of the current set", a.loc()):
            roles = splitter_roles(prog, base[0])
            if "undecided" in roles.values():
                r.ok(anchor, "NOT decided: the membership test guarding the pushes of the splitter %s is not of a recognised form" % base[0].path.rsplit("::", 1)[-1], a.loc())
                continue
            r.check(roles.get(base[1]) == "complement", anchor, "clause-role:%s" % roles.get(base[1]), "the blocking clause holds the literals of the arguments (range elements) *outside* the current set", "the blocking clause is built from the %s literals instead of the complement: it does not exclude the subsets of the current set" % roles.get(base[1]), a.loc())
            # nothing but the selector is added to the two halves of the split (inside the closure or closures nested in it)
            extra = []
            for y in prog.with_closures(cb):
                for ps in y.calls():
                    if callee_decl(callee_of(ps)) in ("alloc::vec::Vec::push", "alloc::vec::Vec::insert") and "sat_solver::Literal" in str(callee_of(ps).get("substs")):
                        pl = tags.literals_of(prog, y, ps.node["args"][-1], set()) if False else tags.literal(prog, y, ps.node["args"][-1], set())
                        if not pl or any(l.role != "SEL" for l in pl):
                            extra.append((ps, pl))
                    elif callee_decl(callee_of(ps)) in ("alloc::vec::Vec::append", "core::iter::traits::collect::Extend::extend", "alloc::vec::Vec::extend_from_slice") and "sat_solver::Literal" in str(callee_of(ps).get("substs")):
                        # extra assumptions handed to the constructor by its caller (the ideal computer's forbidden arguments) are its contract
                        src = ps.node["args"][1] if len(ps.node["args"]) > 1 else None
                        from_ctor_param = False
                        if src is not None and y.kind == "closure":
                            os2 = origins(y, src, transparent=("alloc::slice::to_vec", "alloc::slice::<impl [T]>::to_vec", "core::clone::Clone::clone", "core::ops::deref::Deref::deref", "alloc::vec::Vec::as_slice"))
                            ups = [o for o in os2 if o.kind == "upvar"]
                            if ups and len(ups) == len(os2):
                                from_ctor_param = True
                                for o in ups:
                                    par, cap = tags._closure_capture_operand(prog, y, o.data)
                                    if cap is None or not all(oo.kind == "param" for oo in origins(par, cap)):
                                        from_ctor_param = False
                        if not from_ctor_param:
                            extra.append((ps, "a whole collection"))
            r.check(not extra, anchor, "extra-literals:%s" % [str(x[1])[:60] for x in extra][:3], "only the selector is added to the halves of the split", "the %s function adds %s to the clause / assumptions built from the split: the blocking clause is weakened or the next search is restricted to supersets of what was assumed" % (kind, [str(x[1])[:60] for x in extra][:2]), extra[0][0].loc() if extra else cb.loc())
            if kind == "increase_current_fn":
                rl = tags.literals_of(prog, cb, {"c": {"l": 0, "p": []}}, set())
                r.check(any(l.role == "SEL" and l.pos is False for l in rl), anchor, "returned-assumptions:%s" % rl, "returned assumptions contain the negated selector", "the increase function's assumptions do not contain the negated selector: its own blocking clauses are switched off", cb.loc())
                rb = None
                for o in origins(cb, {"l": 0, "p": []}, transparent=()):
                    if o.kind == "call" and o.fields and prog.body_for_callee(o.data, cb) is base[0]:
                        rb = int(str(o.fields[0]))
                r.check(rb is not None and roles.get(rb) == "members", anchor, "assumption-role:%s" % roles.get(rb), "returned assumptions are the member literals", "the increase function does not assume the members of the current set (the search would not grow it)", cb.loc())
    # fresh search / all solve() callers inside the computer
    mec_solve = [b for b in prog.lib_bodies() if b.kind != "closure" and b.impl and b.impl.get("self_adt") == MEC and any(callee_matches(callee_of(s), SOLVE) for s in b.calls())]
    n = 0
    work = [(cs, 1) for sb in mec_solve for cs in prog.callers_of(sb)]
    seen_fw = set()
    while work:
        cs, ai = work.pop()
        if True:
            b = cs.body
            lits = tags.literals_of(prog, b, cs.node["args"][ai], set())
            if lits and all(l.role == "PARAM" and re.match(r"^param#\d+$", str(l.note or "")) for l in lits) and b.kind != "closure" and str(b.vis or "").startswith("in:") and b.id not in seen_fw and prog.callers_of(b):
                # a private method that forwards the assumptions it is given: judged at its own call sites
                seen_fw.add(b.id)
                for l in lits:
                    work.extend((c2, int(l.note.split("#")[1]) - 1) for c2 in prog.callers_of(b))
                continue
            n += 1
            from_increase = any(l.role == "UNKNOWN" and "indirect" in str(l.note) for l in lits)
            neg_sel = any(l.role == "SEL" and l.pos is False for l in lits)
            r.check(neg_sel or from_increase, "%s|assumptions" % b.id, "assumptions:%s" % lits, "search assumes the negated selector (%s)" % ("directly" if neg_sel else "through the installed increase function, checked above"), "a search of the maximal-extension computer does not assume the negated selector", cs.loc())
    r.floor(n, 2, "callers of MaximalExtensionComputer::solve")
    # same-range search
    n2 = 0
    for b in prog.lib_bodies():
        if "maximal_range_semantics_solvers" not in b.path or b.kind == "closure":
            continue
        for s in b.calls():
            if callee_matches(callee_of(s), r"sat_solver::SatSolver::solve_under_assumptions$"):
                n2 += 1
                lits = tags.literals_of(prog, b, s.node["args"][1], tags_list_params(b))
                # assumptions handed in by the caller (`search_under_assumptions(solver, same_range_assumptions(..), ..)`): what the callers pass
                for l in list(lits):
                    mm = re.match(r"^param#(\d+)$", str(l.note or "")) if l.role == "PARAM" else None
                    if mm and str(b.vis or "").startswith("in:"):
                        for cs in prog.callers_of(b):
                            if int(mm.group(1)) - 1 < len(cs.node["args"]):
                                lits = lits + tags.literals_of(prog, cs.body, cs.node["args"][int(mm.group(1)) - 1], tags_list_params(cs.body))
                r.check(any(l.role == "SEL" and l.pos and ".selector" in str(l.note) for l in lits), b.id + "|same-range", "assumptions:%s" % lits, "the same-range search assumes the computer's selector positively", "the same-range search does not switch the blocking clauses off (positive selector missing)", s.loc())
    r.floor(n2, 1, "same-range searches")
    # polarity of the two halves of the split in the same-range search: members as they are, complement negated
    inst_ids = {cb.id for _, cb, _, _ in inst}
    for _, cb, _, _ in inst:
        for y in prog.reachable_from([cb], virtual_dispatch=False).values():
            inst_ids.add(y.id)
    n3 = 0
    for b in prog.lib_bodies():
        fnb = prog.enclosing_fn(b)
        if b.id in inst_ids or fnb.id in inst_ids or not (fnb.path.startswith("solvers::") or "<solvers::" in fnb.path.split(" as ")[0]):
            continue
        for s in b.calls():
            t = prog.body_for_callee(callee_of(s), b) if callee_of(s) else None
            if t is None or t.kind == "closure" or not re.match(r"^\(alloc::vec::Vec<sat::sat_solver::Literal>, alloc::vec::Vec<sat::sat_solver::Literal>\)$", t.ret_ty):
                continue
            roles = splitter_roles(prog, t)
            if "undecided" in roles.values():
                n3 += 1
                r.ok("%s|same-range-polarity" % b.id, "NOT decided: the membership test of the splitter %s is not of a recognised form" % t.path.rsplit("::", 1)[-1], s.loc())
                continue
            if sorted(roles.values()) != ["complement", "members"]:
                continue
            n3 += 1
            for i, role in sorted(roles.items()):
                neg = _all_elements_negated(prog, b, s, i)
                want = role == "complement"
                r.check(neg == want, "%s|same-range-polarity|%s" % (b.id, role), "negated=%s" % neg, "the %s half of the split enters the same-range assumptions %s" % (role, "negated" if want else "as it is"), "in the same-range search the %s literals are %s: the search no longer fixes the range of the current extension" % (role, "not negated" if want else "negated"), s.loc())
    r.floor(n3, 1, "splits used outside the installed closures (same-range search)")


_VEC_VIEW = (
    "core::slice::iter_mut",
    "core::slice::iter",
    "core::iter::traits::collect::IntoIterator::into_iter",
    "core::ops::deref::Deref::deref",
    "core::ops::deref::DerefMut::deref_mut",
    "alloc::vec::Vec::as_mut_slice",
    "alloc::vec::Vec::as_slice",
    "alloc::vec::Vec::iter_mut",
    "core::iter::traits::iterator::Iterator::by_ref",
)


def _is_component(b, op, split_site, idx):
    """the operand is (a view of / an iterator over) component `idx` of the tuple returned at split_site"""
    for o in origins(b, op, transparent=_VEC_VIEW):
        if o.kind == "call" and o.site is not None and (o.site.bb, o.site.si) == (split_site.bb, split_site.si) and o.fields and str(o.fields[0]) == str(idx):
            return True
    return False


def _all_elements_negated(prog, b, split_site, idx):
    """is every element of component `idx` of the split negated before the vector is used: in place
    (`iter_mut().for_each(|l| *l = l.negate())`, a `for` loop doing the same) or on the way out
    (`into_iter().map(Literal::negate)`, a mapping closure that negates)"""
    for s in b.calls():
        c = callee_of(s)
        if c is None or not s.node["args"] or op_place(s.node["args"][0]) is None:
            continue
        if not _is_component(b, s.node["args"][0], split_site, idx):
            continue
        d = callee_decl(c)
        if d in ("core::iter::traits::iterator::Iterator::for_each", "core::iter::traits::iterator::Iterator::map"):
            for fa in c.get("fn_args") or []:
                if fa.endswith("sat_solver::Literal::negate"):
                    return True
                clo = prog.lib(fa)
                if clo is not None and any(callee_matches(callee_of(x), r"sat_solver::Literal::negate$") for x in clo.calls()):
                    return True
        if d == "core::iter::traits::iterator::Iterator::next" and b.in_loop(s.bb):
            # `for l in v.iter_mut() { *l = l.negate() }`
            blocks = dict(b.loops())[b.in_loop(s.bb)[-1]]
            for x in b.calls():
                if x.bb in blocks and callee_matches(callee_of(x), r"sat_solver::Literal::negate$"):
                    if any(o.kind == "call" and o.site is not None and o.site.bb == s.bb for o in origins(b, x.node["args"][0], transparent=("core::ops::deref::Deref::deref", "core::clone::Clone::clone"))):
                        return True
    return False


def tags_list_params(fn):
    return {i for i in range(1, fn.n_args + 1) if re.match(r"^&\[&", fn.local_ty(i))}


def rule_driver_loops(ctx):
    prog = ctx.prog
    r = ctx.rule(
        "driver-loops",
        "every loop driving a MaximalExtensionComputer calls compute_next once per iteration and leaves on state None (or Maximal for "
        "compute_maximal); CO makes no SAT call inside a loop; ST makes one SAT call per component iteration",
    )
    st = prog.adt("solvers::maximal_extension_computer::MaximalExtensionComputerState")
    idx = {v["name"]: str(v["idx"]) for v in st["variants"]} if st else {}
    n = 0
    for b in prog.lib_bodies():
        nexts = [s for s in b.calls() if callee_matches(callee_of(s), r"MaximalExtensionComputer::compute_next$")]
        for s in nexts:
            loops = b.in_loop(s.bb)
            if not loops:
                continue
            n += 1
            head = loops[-1]
            blocks = dict(b.loops())[head]
            others = [x for x in nexts if x.bb in blocks and x.bb != s.bb]
            r.check(not others, b.id + "|compute_next", "two-steps-per-iteration", "one compute_next per iteration", loc=s.loc())
            # exit on None / Maximal
            exits_ok = False
            for sw in switch_sites(b):
                if sw.bb not in blocks:
                    continue
                subj = switch_subject(b, sw)
                if subj is None:
                    continue
                srcs = origins(b, subj[0], transparent=())
                from .satlayer import place_ty as _place_ty

                is_state = any(o.kind == "call" and callee_matches(o.data, r"MaximalExtensionComputer::state$") for o in srcs) or "MaximalExtensionComputerState" in b.local_ty(subj[0]["l"]) or "MaximalExtensionComputerState" in (_place_ty(b, subj[0]) or "")
                cmp_state = any(o.kind == "call" and callee_decl(o.data) in ("core::cmp::PartialEq::ne", "core::cmp::PartialEq::eq") for o in srcs)
                if not (is_state or cmp_state):
                    continue
                for v, tb in sw.node["targets"] + [["otherwise", sw.node["otherwise"]]]:
                    if tb not in blocks or not b.reaches(tb, head):
                        if is_state and v in (idx.get("None"), idx.get("Maximal")):
                            exits_ok = True
                        if cmp_state:
                            exits_ok = True
                    elif is_state and v in (idx.get("None"), idx.get("Maximal")):
                        # the arm sets a flag that a later `if` turns into the exit (`let go_on = match state {..}; if !go_on { break }`)
                        from ..flow import reachable_with_const_bools

                        rb = reachable_with_const_bools(b, tb, avoid={sw.bb})
                        if (head not in rb or s.bb not in rb) and any(x not in blocks for x in rb):
                            exits_ok = True
            if not exits_ok:
                # the state is interpreted by a method of the module that is handed the computer and answers with a step of its own
                # (`match check.decide(&computer) { Step::Exhausted => return .., .. }`): not followed
                interp = []
                for cs3 in b.calls():
                    if cs3.bb not in blocks:
                        continue
                    t3 = prog.body_for_callee(callee_of(cs3), b) if callee_of(cs3) else None
                    if t3 is None or t3.kind == "closure" or t3.impl is None or (t3.impl.get("self_adt") or "").endswith("MaximalExtensionComputer"):
                        continue
                    if any("MaximalExtensionComputer<" in t3.local_ty(i) for i in range(1, t3.n_args + 1)) and any(callee_matches(callee_of(z), r"MaximalExtensionComputer::state$") for z in t3.calls()):
                        interp.append(t3)
                if interp:
                    r.ok(b.id + "|exit", "NOT decided: the computer's state is interpreted by %s, which answers with a step of its own" % interp[0].path.rsplit("::", 1)[-1], s.loc())
                    continue
            r.check(exits_ok, b.id + "|exit", "no-exit-on-none", "the loop leaves when the computer reports None / Maximal", "the driving loop has no exit on the computer's terminal state", s.loc())
    r.floor(n, 4, "loops driving a MaximalExtensionComputer")
    # CO / ST: a query never starts further queries per listed argument (each would make its own SAT calls)
    for path in ("solvers::complete_semantics_solver::CompleteSemanticsSolver", "solvers::stable_semantics_solver::StableSemanticsSolver"):
        for b in prog.lib_bodies():
            fnb = prog.enclosing_fn(b)
            if not fnb.impl or fnb.impl.get("self_adt") != path:
                continue
            own_solves = any(callee_matches(callee_of(x), SOLVE) for y in prog.with_closures(fnb) for x in y.calls())
            for s in b.calls():
                c = callee_of(s)
                if c is None or c.get("trait") not in ("solvers::specs::CredulousAcceptanceComputer", "solvers::specs::SkepticalAcceptanceComputer", "solvers::specs::SingleExtensionComputer"):
                    continue
                t = prog.body_for_callee(c, b)
                same = (t is not None and t.impl and t.impl.get("self_adt") == path) or (t is None and not c.get("virtual") and path in str(c.get("substs")))
                # trait default methods (is_credulously_accepted & co.) are resolved to the trait: the receiver type tells
                if not same and t is None and c.get("substs") and path.rsplit("::", 1)[-1] in str(c.get("substs")[0]):
                    same = True
                if not same:
                    continue
                nested = b.kind == "closure" or bool(b.in_loop(s.bb)) or own_solves
                r.check(not nested, "%s|requery" % fnb.id, "query-per-argument", "delegates once to the sibling method", "%s starts another query of the same solver %s: the SAT calls of a query are multiplied by the number of listed arguments" % (fnb.path.rsplit("::", 1)[-1], "inside a closure / loop" if (b.kind == "closure" or b.in_loop(s.bb)) else "besides its own SAT calls"), s.loc())
    # CO / ST call structure
    def _closure_site(clo):
        """(parent body, site where the closure is handed to an adaptor / created) or None"""
        par = prog.by_target[clo.target].get(clo.parent["direct"]) if clo.parent else None
        if par is None:
            return None
        for cs in par.calls():
            c = callee_of(cs)
            if c is not None and clo.path in (c.get("fn_args") or []):
                return par, cs
        for st in par.sites():
            nd = st.node
            if st.si is not None and nd["k"] == "assign" and nd["rv"]["k"] == "aggregate" and nd["rv"]["agg"].get("kind") == "closure" and nd["rv"]["agg"].get("path") == clo.path:
                return par, st
        return None

    for path, per_loop in (("solvers::complete_semantics_solver::CompleteSemanticsSolver", False), ("solvers::stable_semantics_solver::StableSemanticsSolver", True)):
        for b in prog.lib_bodies():
            fnb0 = prog.enclosing_fn(b)
            if not fnb0.impl or fnb0.impl.get("self_adt") != path:
                continue
            solves = [s for s in b.calls() if callee_matches(callee_of(s), SOLVE)]
            for s in solves:
                loops = b.in_loop(s.bb)
                # a per-element closure (`find_map`, `for_each`, ..) is a loop of its own
                own = len(loops)
                cur = b
                while cur.kind == "closure":
                    cs_ = _closure_site(cur)
                    if cs_ is None:
                        break
                    own += 1 + len(cs_[0].in_loop(cs_[1].bb))
                    cur = cs_[0]
                if not per_loop:
                    r.check(own == 0, fnb0.id + "|solve", "solve-in-loop", "the complete solver's SAT call is not in a loop", "the complete solver calls the SAT solver inside a loop", s.loc())
                else:
                    # loops around the call, through the private helpers of the solver that hold it
                    def depth_of(fn, site_depth, seen=()):
                        cs = [c for c in prog.callers_of(fn) if c.body is not fn and prog.enclosing_fn(c.body).impl and prog.enclosing_fn(c.body).impl.get("self_adt") == path and not fn.impl.get("trait")]
                        if not cs or fn.id in seen:
                            return {site_depth}
                        out = set()
                        for c in cs:
                            cf = prog.enclosing_fn(c.body)
                            extra = len(c.body.in_loop(c.bb))
                            cur2 = c.body
                            while cur2.kind == "closure":
                                cs2 = _closure_site(cur2)
                                if cs2 is None:
                                    break
                                extra += 1 + len(cs2[0].in_loop(cs2[1].bb))
                                cur2 = cs2[0]
                            out |= depth_of(cf, site_depth + extra, seen + (fn.id,))
                        return out

                    depths = depth_of(fnb0, own)
                    r.check(depths == {1}, fnb0.id + "|solve", "loop-depth=%s" % sorted(depths), "SAT call inside the per-component loop only", loc=s.loc())
                    if loops:
                        head = loops[0]
                        twice = any(x.bb != s.bb and b.reaches(s.bb, x.bb, avoid={head}) for x in solves)
                        r.check(not twice, b.id + "|solve", "two-solves-per-component", "one SAT call per component iteration", "two SAT calls can be made for one component", s.loc())
            if not per_loop and solves:
                r.check(len(solves) <= 2, b.id + "|count", "solves=%d" % len(solves), "at most two SAT calls per query", loc=b.loc())


def rule_ideal_early_exit(ctx):
    prog = ctx.prog
    r = ctx.rule(
        "ideal-early-exit",
        "the preferred enumeration used for ID stops as soon as the intersection has shrunk to the grounded extension: the callback returns "
        "`|intersection| != |grounded|` and the enumeration breaks when the callback returns false",
    )
    en = [b for b in prog.lib_bodies() if b.kind != "closure" and any(callee_matches(callee_of(s), r"ops::function::FnMut::call_mut$") for s in b.calls()) and any(callee_matches(callee_of(s), r"MaximalExtensionComputer::compute_next$") for s in b.calls())]
    if not r.require_anchor(en, "enumeration function calling a callback per maximal extension"):
        return
    for b in en:
        cbc = [s for s in b.calls() if callee_matches(callee_of(s), r"ops::function::FnMut::call_mut$")]
        ok = False
        for s in cbc:
            # the loop is left on the false result
            loops = b.in_loop(s.bb)
            for sw in switch_sites(b):
                subj = switch_subject(b, sw)
                if subj and not subj[1]:
                    if any(o.kind == "call" and o.site.bb == s.bb for o in origins(b, subj[0], transparent=())) or any(o.kind == "unop" for o in origins(b, subj[0], transparent=())):
                        t = sw.node
                        for v, tb in t["targets"] + [["otherwise", t["otherwise"]]]:
                            if loops and not b.reaches(tb, loops[-1]) or (loops and tb not in dict(b.loops())[loops[-1]]):
                                ok = True
        r.check(ok, b.id, "no-break", "the enumeration stops when the callback says so", "the enumeration ignores the callback's stop request", b.loc())
        # callers' callbacks
        for cs in prog.callers_of(b):
            cbody = cs.body
            for o in origins(cbody, cs.node["args"][-1], transparent=()):
                if o.kind == "agg" and o.data.get("kind") == "closure":
                    clo = prog.lib(o.data["path"])
                    if clo is None:
                        continue
                    good = False
                    for oo in origins(clo, {"l": 0, "p": []}, transparent=()):
                        if oo.kind == "binop" and oo.data["op"] == "Ne":
                            _, calls, _ = data_deps(clo, oo.data["ops"][1])
                            if any(callee_matches(callee_of(c), r"slice::len$|Vec::len$") for c in calls):
                                good = True
                    if not good:
                        # the test is made by a method of a private state object the callback hands the extension to
                        # (`|ext| state.absorb(ext)` returning `!self.is_reduced_to_grounded()`): the returned bool, with private
                        # getters inlined, is a comparison of two counters
                        from ..prov import prov as _pv, inlining as _inl, subterms as _sub

                        und = False
                        for oo in origins(clo, {"l": 0, "p": []}, transparent=()):
                            if oo.kind == "call":
                                tgt = prog.body_for_callee(oo.data, clo)
                                if tgt is not None and tgt.kind != "closure":
                                    with _inl():
                                        for e in _pv(prog, tgt, {"l": 0, "p": []}):
                                            neg = False
                                            while e[0] == "op" and e[1] == "Not":
                                                neg = not neg
                                                e = e[2][0]
                                            if e[0] == "op" and ((e[1] == "Ne" and not neg) or (e[1] == "Eq" and neg)) and all(x[0] == "param" and x[3] for x in e[2]):
                                                good = True
                                            elif e[0] == "op" and e[1] in ("Eq", "Ne"):
                                                pass
                                            else:
                                                und = True
                        if not good and und:
                            r.ok(clo.id, "NOT decided: the stop test of the ID callback is made in a form the rule does not follow", clo.loc())
                            continue
                    r.check(good, clo.id, "callback-result", "callback returns `count != grounded.len()`", "the ID callback does not stop the enumeration when the intersection equals the grounded extension", clo.loc())


def rule_model_tracks_extension(ctx):
    prog = ctx.prog
    r = ctx.rule(
        "model-tracks-extension",
        "in the maximal-extension computer, whenever the current set is replaced by the set decoded from a SAT answer, the stored model is "
        "replaced by the model of that same answer on the same path: the range splitters build the blocking clause and the improvement "
        "assumptions from the stored model, so a stale model breaks the strict growth of the range (and termination)",
    )
    adt = prog.adt(MEC)
    if not r.require_anchor(adt, MEC):
        return
    fields = {f["name"]: f["ty"] for v in adt["variants"] for f in v["fields"]}
    model_f = [n for n, t in fields.items() if re.match(r"^core::option::Option<sat::sat_solver::Assignment>$", t)]
    ext_f = [n for n, t in fields.items() if re.match(r"^core::option::Option<alloc::vec::Vec<&", t)]
    if not r.require_anchor(len(model_f) == 1 and len(ext_f) == 1, "one Option<Assignment> field and one Option<Vec<&Argument>> field in the computer"):
        return
    model_f, ext_f = model_f[0], ext_f[0]
    # the model field is read by the state data handed to the installed closures (otherwise the rule is moot)
    n = 0
    for b in prog.lib_bodies():
        if b.kind == "closure" or not b.impl or b.impl.get("self_adt") != MEC:
            continue

        def stores(fname):
            out = []
            for s in b.sites():
                nd = s.node
                if s.si is None or nd["k"] != "assign":
                    continue
                fl = [str(x) for x in place_fields(nd["dst"])]
                if nd["dst"]["l"] == 1 and fl[:1] == [fname] and len(fl) == 1:
                    out.append(s)
            return out

        def answer_sources(site):
            """SAT answers (call results, or parameters, whose type holds an Assignment) the stored Some(..) derives from"""
            out = set()
            if site.node["rv"]["k"] != "use":
                return out
            pend = []
            for o in origins(b, site.node["rv"]["ops"][0], transparent=()):
                if o.kind == "agg" and o.data.get("variant") == "Some":
                    pend += origins(b, o.site.node["rv"]["ops"][0], transparent=())
                else:
                    pend.append(o)
            # a set decoded from a model: the answer is the model's
            more = []
            for oo in pend:
                if oo.kind == "call" and callee_matches(oo.data, r"assignment_to_extension$"):
                    for a in oo.site.node["args"]:
                        if op_place(a) is not None:
                            more += [x for x in origins(b, a, transparent=()) if x.kind in ("call", "param")]
            pend += more
            for oo in pend:
                if oo.kind == "call" and "sat::sat_solver::Assignment" in b.local_ty(oo.site.node["dst"]["l"]):
                    out.add(("call", oo.site.bb, oo.site.si))
                elif oo.kind == "param" and "sat::sat_solver::Assignment" in b.local_ty(oo.data):
                    out.add(("param", oo.data, None))
            return out

        for es in stores(ext_f):
            srcs = answer_sources(es)
            if not srcs:
                continue
            n += 1
            anchor = "%s|store-current#%d" % (b.id, n)
            ok = False
            for ms in stores(model_f):
                same = bool(srcs & answer_sources(ms))
                together = (b.dominates(es.bb, ms.bb) and b.postdominates(ms.bb, es.bb)) or (b.dominates(ms.bb, es.bb) and b.postdominates(es.bb, ms.bb))
                if same and together:
                    ok = True
            r.check(ok, anchor, "stale-model", "the model of the same SAT answer is stored on the same path", "`%s` is replaced by the set of a SAT answer but `%s` keeps the model of an earlier answer: the range splitters work on a stale model" % (ext_f, model_f), es.loc())
    r.floor(n, 1, "places where the computer adopts the set of a SAT answer")


def _starts_search(prog, t, depth=0):
    """the function (or a private helper it calls) creates a SAT solver with the factory: it starts a search of its own"""
    from ..core import self_fields_read

    for y in prog.with_closures(t):
        for s in y.calls():
            c = callee_of(s)
            if c is not None and (callee_matches(c, r"ops::function::Fn::call$") or c.get("decl") == "<indirect>") and s.node["args"]:
                if "solver_factory" in self_fields_read(y, s.node["args"][0]) or any("SatSolver" in y.local_ty(s.node["dst"]["l"]) for _ in [0]):
                    return True
    return False


def rule_single_computation(ctx):
    prog = ctx.prog
    r = ctx.rule(
        "single-computation-per-query",
        "a query method of a static solver (a method of SingleExtensionComputer / CredulousAcceptanceComputer / SkepticalAcceptanceComputer) "
        "delegates to at most one other query method of the same solver on every path, never inside a loop: a query is one computation, and "
        "the stated SAT-call bounds are bounds of one computation - answering through one query method and then restarting through another "
        "examines every candidate set again on fresh solvers",
    )
    n = n_deleg = 0
    by_adt = {}
    for b in prog.lib_bodies():
        if b.kind != "closure" and b.impl and (b.impl.get("trait") or "").startswith("solvers::specs::") and (b.impl.get("self_adt") or "").startswith("solvers::"):
            by_adt.setdefault(b.impl["self_adt"], []).append(b)
    if not r.require_anchor(by_adt, "implementations of the solver traits in solvers::"):
        return
    for adt_path, methods in sorted(by_adt.items()):
        ids = {b.id for b in methods}
        for b in sorted(methods, key=lambda x: x.id):
            n += 1
            sites = []
            for bb in prog.with_closures(b):
                for s, t in prog.callees(bb, include_closures=False, virtual_dispatch=False):
                    if t.id in ids and t.id != b.id:
                        sites.append((bb, s, t))
            # helpers of the solver that start a SAT search of their own (they call the solver factory): two of them on one path, outside
            # the per-component loops, examine the candidate sets twice on fresh solvers
            searches = []
            for s, t in prog.callees(b, include_closures=False, virtual_dispatch=False):
                if t.kind != "closure" and t.impl and t.impl.get("self_adt") == adt_path and not t.impl.get("trait") and t.id not in ids and _starts_search(prog, t) and not b.in_loop(s.bb):
                    searches.append((s, t))
            for i, (s1, t1) in enumerate(searches):
                for s2, t2 in searches[i + 1 :]:
                    if s1.bb != s2.bb and (b.reaches(s1.bb, s2.bb) or b.reaches(s2.bb, s1.bb)):
                        r.violation(b.id, "search-started-twice", "the query starts two SAT searches on one path (%s at %s and %s at %s), each on a fresh solver: what the first one excluded is examined again by the second" % (t1.path.rsplit("::", 1)[-1], s1.loc(), t2.path.rsplit("::", 1)[-1], s2.loc()), s2.loc())
            if not sites:
                continue
            n_deleg += 1
            bad = None
            for bb, s, t in sites:
                if bb is not b:
                    bad = "inside a closure (%s)" % bb.id
                elif b.in_loop(s.bb):
                    bad = "inside a loop (%s)" % s.loc()
            for i, (b1, s1, t1) in enumerate(sites):
                for b2, s2, t2 in sites[i + 1 :]:
                    if b1 is b and b2 is b and (s1.bb == s2.bb or b.reaches(s1.bb, s2.bb) or b.reaches(s2.bb, s1.bb)):
                        bad = "twice on one path (%s at %s and %s at %s)" % (t1.path.rsplit("::", 1)[-1], s1.loc(), t2.path.rsplit("::", 1)[-1], s2.loc())
            r.check(bad is None, b.id, "restarted-computation", "delegates to one query method per path", "the query delegates to other query methods %s: the computation is run more than once for one query" % bad, b.loc())
    r.floor(n, 30, "query methods of the static solvers")
    r.floor(n_deleg, 4, "query methods delegating to another query method")


def rule_selector_freshness(ctx):
    prog = ctx.prog
    r = ctx.rule(
        "retired-selector-not-reused",
        "a selector that is retired inside a loop (unit clause of its negation) was created in the same iteration (`1 + n_vars()` read "
        "inside the loop): once `-s` is a clause, every clause guarded by `s` is dead and assuming `s` again makes the solver unsatisfiable",
    )
    n = 0
    for b in sorted(prog.lib_bodies(), key=lambda x: x.id):
        fnb = prog.enclosing_fn(b)
        if not (fnb.path.startswith("solvers::") or "<solvers::" in fnb.path.split(" as ")[0]):
            continue
        loops = dict(b.loops())
        for s in b.calls():
            if not callee_matches(callee_of(s), r"sat_solver::SatSolver::add_clause$") or not b.in_loop(s.bb):
                continue
            lits = tags.literals_of(prog, b, s.node["args"][1], set())
            if len(lits) != 1 or lits[0].role != "SEL" or lits[0].pos is not False or lits[0].site is None or lits[0].site.body is not b:
                continue
            n += 1
            inner = min(b.in_loop(s.bb), key=lambda h: len(loops[h]))
            created_in = lits[0].site.bb in loops[inner]
            r.check(created_in, "%s|retire#%d" % (b.id, n), "selector-outlives-iteration", "the retired selector was created in the same iteration", "a selector created before the loop is retired inside it and used again in the next iteration: the query clause it guards is dead from the second iteration on", s.loc())
    r.floor(n, 1, "selectors retired inside a loop")


def _selector_identity(prog, b, l):
    """key of a selector made for one call: its creation site (`1 + n_vars()`), or the Literal parameter through which every caller
    hands such a selector to a helper; None for anything else (the computer's own selector, argument literals ..)"""
    if l.many or "selector" in str(l.note or ""):
        return None
    if l.role == "SEL" and l.site is not None:
        return ("site", l.site.body.id, l.site.bb, l.site.si)
    m = re.match(r"^param#(\d+)$", str(l.note or ""))
    if l.role == "PARAM" and m and b.kind != "closure":
        k = int(m.group(1))
        if not b.local_ty(k).endswith("sat::sat_solver::Literal"):
            return None
        cs = prog.callers_of(b)
        if not cs:
            return None
        for c in cs:
            if k - 1 >= len(c.node["args"]):
                return None
            ls = tags.literal(prog, c.body, c.node["args"][k - 1], set())
            if not ls or not all(x.role == "SEL" and x.site is not None and x.pos and "selector" not in str(x.note or "") for x in ls):
                return None
        return ("param", b.id, k)
    return None


class _CallAsSolve:
    """a call site of a helper, seen as a SAT call on the solver it hands over (argument k)"""

    def __init__(self, site, k):
        self.bb, self.si = site.bb, site.si
        self.node = {"args": [site.node["args"][k]]}


def closure_invocations(prog, clo):
    """where a closure handed to a function of the crate is called by it: list of (body, call site, operands of the argument tuple)"""
    fn = prog.enclosing_fn(clo)
    out = []
    for ps in fn.sites():
        nd = ps.node
        if not (ps.si is not None and nd["k"] == "assign" and nd["rv"]["k"] == "aggregate" and nd["rv"]["agg"].get("kind") == "closure" and nd["rv"]["agg"].get("path") == clo.path):
            continue
        for x in fn.calls():
            t = prog.body_for_callee(callee_of(x), fn) if callee_of(x) else None
            if t is None or t.kind == "closure":
                continue
            for k, a in enumerate(x.node["args"]):
                if not any(o.kind == "agg" and o.site is not None and (o.site.bb, o.site.si) == (ps.bb, ps.si) for o in origins(fn, a, transparent=())):
                    continue
                for y in t.calls():
                    if callee_matches(callee_of(y), r"ops::function::(FnMut::call_mut|Fn::call|FnOnce::call_once)$") and len(y.node["args"]) == 2 and any(o.kind == "param" and o.data == k + 1 and not o.fields for o in origins(t, y.node["args"][0], transparent=())):
                        tup = [o for o in origins(t, y.node["args"][1], transparent=()) if o.kind == "agg" and o.data.get("kind") == "tuple"]
                        if len(tup) == 1:
                            out.append((t, y, tup[0].site.node["rv"]["ops"]))
    return out


class _InvocationAsSolve:
    def __init__(self, site, op):
        self.bb, self.si = site.bb, site.si
        self.node = {"args": [op]}


def _solver_used_again(prog, b, s, solves, _depth=0):
    """can the SAT solver object of solve call s make another SAT call: s runs in a loop the solver outlives, another solve site on it is
    reachable without passing its creation, or the object is shared (handed to a function / a maximal-extension computer)"""
    from .provenance import _solver_creations

    cr = _solver_creations(prog, b, s.node["args"][0])
    sites = [x[2] for x in cr if x[0] == "site" and x[1] is b]
    if cr and all(x[0] == "passed-in" for x in cr) and b.kind != "closure" and _depth < 2:
        # a helper working on the solver it is given: judged at its call sites (the call stands for the SAT calls inside)
        k = None
        for o in origins(b, s.node["args"][0]):
            if o.kind == "param":
                k = o.data
        cs = prog.callers_of(b)
        if k is not None and cs:
            res = []
            for c in cs:
                if k - 1 >= len(c.node["args"]):
                    return True
                other_solves_here = [x for x in b.calls() if x.bb != s.bb and callee_matches(callee_of(x), SOLVE) and b.reaches(s.bb, x.bb)]
                if other_solves_here:
                    return True
                fake = _CallAsSolve(c, k - 1)
                res.append(_solver_used_again(prog, c.body, fake, [x for x in c.body.calls() if callee_matches(callee_of(x), SOLVE) or prog.body_for_callee(callee_of(x), c.body) is b], _depth + 1))
            return True if any(x is True for x in res) else (None if any(x is None for x in res) else False)
    if cr and all(x[0] == "passed-in" for x in cr) and b.kind == "closure" and _depth < 3:
        # a closure working on the solver the function it is handed to gives it
        ks = {o.data for o in origins(b, s.node["args"][0]) if o.kind == "param"}
        inv = closure_invocations(prog, b)
        if len(ks) == 1 and inv and all(min(ks) - 2 < len(ops) for _, _, ops in inv):
            k = min(ks)
            if [x for x in b.calls() if x.bb != s.bb and (callee_matches(callee_of(x), SOLVE)) and b.reaches(s.bb, x.bb)]:
                return True
            res = [_solver_used_again(prog, t, _InvocationAsSolve(y, ops[k - 2]), [x for x in t.calls() if callee_matches(callee_of(x), SOLVE) or x is y or (x.bb, x.si) == (y.bb, y.si)], _depth + 1) for t, y, ops in inv]
            return None if any(x is None for x in res) else any(res)
    if not sites or len(sites) != len(cr):
        return None  # created elsewhere / passed in: not known
    loops = dict(b.loops())
    for c in sites:
        for h in b.in_loop(s.bb):
            if c.bb not in loops[h]:
                return True
        for o in solves:
            if o.bb != s.bb and b.reaches(s.bb, o.bb, avoid={c.bb}):
                return True
        # shared: a clone of the Rc handle is passed on
        for x in b.calls():
            if callee_matches(callee_of(x), r"rc::Rc::clone$|Clone::clone$") and x.node["args"]:
                if any(o2.kind == "call" and o2.site is not None and o2.site.bb == c.bb for o2 in origins(b, x.node["args"][0])):
                    return True
    return False


def rule_local_selector_retired(ctx):
    prog = ctx.prog
    r = ctx.rule(
        "query-clauses-retired",
        "in the static solvers a selector made for one SAT call (`1 + n_vars()`, assumed positively, guarding a clause that states the query) is "
        "retired afterwards by the unit clause of its *negation*, and is never asserted positively: a clause guarded by an asserted selector "
        "stays active for every later call on the same solver (the next range iteration, the next component), so query-local clauses leak",
    )
    n = 0
    for b in sorted(prog.lib_bodies(), key=lambda x: x.id):
        fnb = prog.enclosing_fn(b)
        if not (fnb.path.startswith("solvers::") or "<solvers::" in fnb.path.split(" as ")[0]):
            continue
        adds = [s for s in b.calls() if callee_matches(callee_of(s), r"sat_solver::SatSolver::add_clause$")]
        solves = [s for s in b.calls() if callee_matches(callee_of(s), r"sat_solver::SatSolver::solve_under_assumptions$")]
        units = []
        for a in adds:
            lits = tags.literals_of(prog, b, a.node["args"][1], set())
            if len(lits) == 1 and _selector_identity(prog, b, lits[0]) is not None:
                units.append((a, lits[0], _selector_identity(prog, b, lits[0])))
        for k, (a, l, _) in enumerate(units):
            r.check(l.pos is False, "%s|unit#%d" % (b.id, k), "selector-asserted", "the unit clause retires the selector (negative)", "a local selector is asserted by a unit clause instead of being retired: the clause it guards stays active for the rest of the solver's life", a.loc())
        for k, s in enumerate(solves):
            lits = tags.literals_of(prog, b, s.node["args"][1], set())
            # a clause that carries the selector with the polarity it is assumed with is satisfied by the assumption itself: it asks nothing
            for l in lits:
                ident = _selector_identity(prog, b, l)
                if ident is None or ident[0] != "site" or l.pos is None:
                    continue
                for a in adds:
                    if a.bb == s.bb or not b.reaches(a.bb, s.bb):
                        continue
                    cl = tags.literals_of(prog, b, a.node["args"][1], set())
                    if len(cl) > 1 and any(x.pos is l.pos and _selector_identity(prog, b, x) == ident for x in cl):
                        r.violation("%s|solve#%d" % (b.id, k), "selector-satisfies-its-clause", "the clause stating the query carries the selector %s and the SAT call assumes it %s: the assumption satisfies the clause, the call asks nothing of the listed arguments" % ("positively" if l.pos else "negated", "positively" if l.pos else "negated"), a.loc())
            local = [(l, _selector_identity(prog, b, l)) for l in lits if l.pos and _selector_identity(prog, b, l) is not None]
            # the literals of a vector are collected over the whole function: a selector created where this call cannot be reached from
            # (after an early `return solver.solve_under_assumptions(..)`) is not among this call's assumptions
            local = [(l, i) for l, i in local if not (i[0] == "site" and i[1] == b.id and not b.reaches(i[2], s.bb) and i[2] != s.bb)]
            if not local:
                continue
            n += 1
            for l, ident in local:
                # the selector guards something: a clause added before the call carries its negation
                guarded = False
                for a in adds:
                    if a.bb == s.bb or not b.reaches(a.bb, s.bb):
                        continue
                    cl = tags.literals_of(prog, b, a.node["args"][1], set())
                    if len(cl) > 1 and any(x.pos is False and _selector_identity(prog, b, x) == ident for x in cl):
                        guarded = True
                used = _solver_used_again(prog, b, s, solves) if ident[0] == "site" and not guarded else None
                if ident[0] == "site" and not guarded and used is None:
                    r.ok("%s|solve#%d|guard" % (b.id, k), "NOT decided: the query clause is unguarded, and the solver object is handed over by callers that are not followed", s.loc())
                elif ident[0] == "site" and not guarded and not used:
                    r.ok("%s|solve#%d|guard" % (b.id, k), "the query clause is unguarded, but the solver object makes no other SAT call (created for this call only)", s.loc())
                elif ident[0] == "site":
                    r.check(guarded, "%s|solve#%d" % (b.id, k), "selector-guards-nothing", "the clause stating the query carries the negated selector", "a selector is created and assumed for this SAT call, but no clause added before the call carries its negation: the query clause is unguarded and stays in the solver for every later call", s.loc())
                ret = [a for a, u, uid in units if uid == ident and b.reaches(s.bb, a.bb)]
                if not ret and ident[0] == "site" and b.kind != "closure" and b.impl:
                    # the selector is kept in a field of the object (`self.selector = Some(selector)`) and retired by a method of the
                    # object that takes it from there (`self.retire_selector()`), called after the SAT call
                    stored = set()
                    for st in b.sites():
                        nd = st.node
                        if st.si is not None and nd["k"] == "assign" and nd["dst"]["l"] == 1 and place_fields(nd["dst"]):
                            ops_ = nd["rv"].get("ops") or []
                            for x in ops_:
                                seen_, calls_, _ = data_deps(b, x)
                                if any((c.bb, c.si) == (ident[2], ident[3]) for c in calls_) or any(dd.bb == ident[2] for l_ in seen_ for dd in b.defs.get(l_, [])):
                                    stored.add(str(place_fields(nd["dst"])[0]))
                    if stored:
                        via = None
                        for cs2 in b.calls():
                            t2 = prog.body_for_callee(callee_of(cs2), b) if callee_of(cs2) else None
                            if t2 is None or t2.kind == "closure" or not t2.impl or t2.impl.get("self_adt") != b.impl.get("self_adt") or not b.reaches(s.bb, cs2.bb):
                                continue
                            for a2 in t2.calls():
                                if callee_matches(callee_of(a2), r"sat_solver::SatSolver::add_clause$"):
                                    l2 = tags.literals_of(prog, t2, a2.node["args"][1], set())
                                    if len(l2) == 1 and l2[0].pos is False and any(f in str(l2[0].note or "") for f in stored):
                                        via = t2
                        if via is not None:
                            r.ok("%s|solve#%d" % (b.id, k), "the selector assumed for this call is kept in the field `%s` and retired by %s, called after the call" % (sorted(stored)[0], via.path.rsplit("::", 1)[-1]), s.loc())
                            continue
                        r.ok("%s|solve#%d" % (b.id, k), "NOT decided: the selector assumed for this call is kept in the field `%s`; where it is retired is not in this function" % sorted(stored)[0], s.loc())
                        continue
                r.check(bool(ret), "%s|solve#%d" % (b.id, k), "selector-not-retired", "the selector assumed for this call is retired after it", "the selector assumed for this SAT call is never retired: the query clause it guards can be switched on again by a later selector with the same number", s.loc())
    r.floor(n, 1, "SAT calls under a locally created selector")


def rule_state_machine(ctx):
    prog = ctx.prog
    r = ctx.rule(
        "search-state-transitions",
        "MaximalExtensionComputer: after a *satisfiable* SAT call the state is Intermediate (a set was found; nothing says it is maximal); "
        "after an unsatisfiable call the state is Maximal when the call tried to enlarge the current set (assumptions produced by the installed "
        "increase function) and None when it was a fresh search (only the negated selector assumed); the found set and its model are stored in "
        "the satisfiable arm only",
    )
    st = prog.adt("solvers::maximal_extension_computer::MaximalExtensionComputerState")
    if not r.require_anchor(st, "MaximalExtensionComputerState"):
        return
    from ..flow import on_some_arm, on_none_arm

    n = 0
    # private setters of the state field (`fn enter(&mut self, state) { self.state = state }`)
    setters = {}
    for b in prog.lib_bodies():
        if b.kind == "closure" or not b.impl or b.impl.get("self_adt") != MEC or not str(b.vis or "").startswith("in:"):
            continue
        for x in b.sites():
            nd = x.node
            if x.si is not None and nd["k"] == "assign" and nd["dst"]["p"] and nd["dst"]["l"] == 1 and nd["rv"]["k"] == "use":
                os_ = origins(b, nd["rv"]["ops"][0], transparent=())
                if os_ and all(o.kind == "param" and not o.fields and st["path"] in b.local_ty(o.data) for o in os_) and len(list(b.calls())) == 0:
                    setters[b.id] = os_[0].data

    def _variants(body, op):
        out = set()
        for o in origins(body, op, transparent=()):
            if o.kind == "agg" and o.data.get("path") == st["path"]:
                out.add(o.data.get("variant"))
            elif o.kind == "param" and not o.fields and st["path"] in body.local_ty(o.data):
                out.add(("param", o.data))
        return out

    for b in sorted(prog.lib_bodies(), key=lambda x: x.id):
        if b.kind == "closure" or not b.impl or b.impl.get("self_adt") != MEC:
            continue
        solves = [s for s in b.calls() if prog.body_for_callee(callee_of(s), b) is not None and any(callee_matches(callee_of(x), SOLVE) for x in prog.body_for_callee(callee_of(s), b).calls()) and prog.body_for_callee(callee_of(s), b).impl and prog.body_for_callee(callee_of(s), b).impl.get("self_adt") == MEC]
        for s in solves:
            res = s.node["dst"]["l"]
            lits0 = tags.literals_of(prog, b, s.node["args"][1], set())
            # the contexts this SAT call is judged in: itself, or (a private helper that is given the assumptions and the fallback state) each of its call sites
            if lits0 and all(l.role == "PARAM" and re.match(r"^param#\d+$", str(l.note or "")) for l in lits0) and str(b.vis or "").startswith("in:") and prog.callers_of(b):
                pk = int(lits0[0].note.split("#")[1])
                ctxs = [(tags.literals_of(prog, cs.body, cs.node["args"][pk - 1], set()), cs) for cs in prog.callers_of(b) if cs.body.impl and cs.body.impl.get("self_adt") == MEC]
            else:
                ctxs = [(lits0, None)]
            stores = []
            for st_site in b.sites():
                nd = st_site.node
                if st_site.si is not None and nd["k"] == "assign" and nd["dst"]["p"] and nd["dst"]["l"] == 1:
                    if nd["rv"]["k"] == "aggregate" and nd["rv"]["agg"].get("path") == st["path"]:
                        stores.append((st_site, {nd["rv"]["agg"].get("variant")}))
                    elif nd["rv"]["k"] == "use":
                        stores.append((st_site, _variants(b, nd["rv"]["ops"][0])))
                elif st_site.si is None and nd.get("k") == "call":
                    t = prog.body_for_callee(callee_of(st_site), b)
                    if t is not None and t.id in setters and len(nd["args"]) >= setters[t.id]:
                        stores.append((st_site, _variants(b, nd["args"][setters[t.id] - 1])))
            for lits, cs in ctxs:
                # was it an enlarging search? the assumptions come from an indirect call (the installed function)
                enlarging = any(l.role == "UNKNOWN" and "indirect" in str(l.note) for l in lits)
                fresh = any(l.role == "SEL" and l.pos is False for l in lits) and not enlarging
                if not (enlarging or fresh):
                    continue
                n += 1
                for st_site, variants0 in stores:
                    variants = set()
                    for v in variants0:
                        if isinstance(v, tuple):
                            if cs is not None and len(cs.node["args"]) >= v[1]:
                                variants |= {x for x in _variants(cs.body, cs.node["args"][v[1] - 1]) if not isinstance(x, tuple)}
                        else:
                            variants.add(v)
                    if not variants or not b.reaches(s.bb, st_site.bb):
                        continue
                    some = none = False
                    for c in conditions(b, st_site.bb):
                        if not c.is_discr:
                            continue
                        roots, _, _ = data_deps(b, c.place, through_calls=False)
                        if res in roots or c.place["l"] == res:
                            some = some or on_some_arm(c)
                            none = none or on_none_arm(c)
                    anchor = "%s|%s" % (b.id if cs is None else "%s<-%s" % (b.id, cs.body.id), "enlarge" if enlarging else "fresh")
                    for v in sorted(variants):
                        if some:
                            r.check(v == "Intermediate", anchor + "|sat", "state-after-sat:%s" % v, "satisfiable => Intermediate", "after a satisfiable SAT call the computer reports %s: a set that was merely found is taken for %s" % (v, "a maximal one" if v == "Maximal" else v), st_site.loc())
                        elif none:
                            want = "Maximal" if enlarging else "None"
                            r.check(v == want, anchor + "|unsat", "state-after-unsat:%s" % v, "unsatisfiable => %s" % want, "after an unsatisfiable %s the computer reports %s instead of %s" % ("attempt to enlarge the current set" if enlarging else "fresh search", v, want), st_site.loc())
    r.floor(n, 2, "SAT calls of the maximal-extension computer with a state transition")
    # state stores made without a SAT call (the grounded start, a discarded search): never Maximal, never None
    sat_fns = set()
    for b in prog.lib_bodies():
        if b.kind != "closure" and b.impl and b.impl.get("self_adt") == MEC and any(prog.body_for_callee(callee_of(s), b) is not None and any(callee_matches(callee_of(x), SOLVE) for x in prog.body_for_callee(callee_of(s), b).calls()) for s in b.calls()):
            sat_fns.add(b.id)
    for b in sorted(prog.lib_bodies(), key=lambda x: x.id):
        if b.kind == "closure" or not b.impl or b.impl.get("self_adt") != MEC or b.impl.get("trait") or b.id in sat_fns:
            continue
        if any(callee_matches(callee_of(x), SOLVE) for x in b.calls()):
            continue
        for st_site in b.sites():
            nd = st_site.node
            if st_site.si is None or nd["k"] != "assign" or not nd["dst"]["p"] or nd["dst"]["l"] != 1:
                continue
            vs = set()
            if nd["rv"]["k"] == "aggregate" and nd["rv"]["agg"].get("path") == st["path"]:
                vs.add(nd["rv"]["agg"].get("variant"))
            elif nd["rv"]["k"] == "use":
                k0 = op_const(nd["rv"]["ops"][0])
                if k0 is not None and k0.get("variant") and "MaximalExtensionComputerState" in str(k0.get("enum") or k0.get("ty")):
                    vs.add(k0["variant"])
                for o in origins(b, nd["rv"]["ops"][0], transparent=()):
                    if o.kind == "agg" and o.data.get("path") == st["path"]:
                        vs.add(o.data.get("variant"))
            for v in sorted(x for x in vs if x):
                # a constructor starts in its initial state; afterwards a state reached without a SAT call tells nothing about maximality
                if b.ret_ty.startswith(MEC) or b.ret_ty == "Self":
                    continue
                r.check(v not in ("Maximal", "None"), "%s|no-sat" % b.id, "state-without-sat:%s" % v, "a state set without a SAT call is neither Maximal nor None", "%s sets the state to %s without any SAT call: %s" % (b.path.rsplit("::", 1)[-1], v, "the set it holds is handed out as a maximal one although nothing was tried to enlarge it" if v == "Maximal" else "the search is declared finished without having looked"), st_site.loc())
    # the step function: which kind of step each state leads to
    step = [b for b in prog.lib_bodies() if b.kind != "closure" and b.impl and b.impl.get("self_adt") == MEC and not b.impl.get("trait") and any(sw for sw in switch_sites(b) if (switch_subject(b, sw) or (None, None))[1] and "MaximalExtensionComputerState" in place_ty_of_(b, switch_subject(b, sw)[0])) and len([sw for sw in switch_sites(b)]) == 1 and b.ret_ty == "()"]
    idx = {str(v["idx"]): v["name"] for v in st["variants"]}

    def kind_of(fn, depth=0):
        ks = set()
        for y in prog.with_closures(fn):
            for s in y.calls():
                c = callee_of(s)
                t = prog.body_for_callee(c, y) if c else None
                if c is None or (c.get("decl") == "<indirect>") or callee_matches(c, r"ops::function::Fn(Mut|Once)?::call"):
                    for a in s.node.get("args") or []:
                        for o in origins(y, a, transparent=("core::option::Option::as_ref", "core::option::Option::unwrap", "core::ops::deref::Deref::deref")):
                            if o.kind == "param" and o.fields:
                                f0 = str(o.fields[0])
                                if "increase" in f0:
                                    ks.add("enlarge")
                                elif "discard_maximal" in f0:
                                    ks.add("discard-maximal")
                                elif "discard_current" in f0:
                                    ks.add("discard-current")
                if callee_matches(c, r"grounded_extension$"):
                    ks.add("start")
                if t is not None and t.impl and t.impl.get("self_adt") == MEC and depth < 2 and t is not fn:
                    if any(callee_matches(callee_of(x), SOLVE) for x in t.calls()):
                        lits = tags.literals_of(prog, y, s.node["args"][1], set()) if len(s.node["args"]) > 1 else []
                        if any(l.role == "SEL" and l.pos is False for l in lits) and not any(l.role == "UNKNOWN" for l in lits):
                            ks.add("fresh")
                    else:
                        ks |= kind_of(t, depth + 1)
        return ks

    for b in step[:1]:
        sw = [x for x in switch_sites(b)][0]
        table = {}
        for v, tb in sw.node["targets"]:
            region = {tb} | b.blocks_reachable_from(tb, avoid={sw.bb})
            ks = set()
            div = True
            for x in region:
                t_ = b.blocks[x]["term"]
                if t_["k"] == "return":
                    div = False
                if t_["k"] == "call":
                    t = prog.body_for_callee(t_.get("callee"), b) if t_.get("callee") else None
                    if t is not None and t.impl and t.impl.get("self_adt") == MEC:
                        ks |= kind_of(t)
            # blocks shared by all arms (the common return) do not tell arms apart: only calls count
            table[idx.get(v, v)] = "diverges" if (div and not ks) else "+".join(sorted(ks)) or "nothing"
        want = {"Maximal": "discard-maximal+fresh", "Intermediate": "enlarge", "JustDiscarded": "fresh", "Init": "start", "None": "diverges"}
        und = [k for k, v in table.items() if v == "nothing"]
        anchor = "%s|steps" % b.id
        if und or set(table) - set(want):
            r.ok(anchor, "NOT decided: the step taken in state %s is not classified" % sorted(und or (set(table) - set(want))), b.loc())
        else:
            bad = {k: v for k, v in table.items() if want.get(k) != v}
            r.check(not bad, anchor, "step-table:%s" % sorted(bad.items()), "Init: grounded start; Intermediate: try to enlarge; Maximal: block it and search afresh; JustDiscarded: search afresh; None: no step", "the step function takes, in state %s, the step `%s` instead of `%s`" % (sorted(bad)[0] if bad else "", bad.get(sorted(bad)[0]) if bad else "", want.get(sorted(bad)[0]) if bad else ""), b.loc())
    # the computer's clauses die with it: Drop asserts the selector
    drops = [b for b in prog.lib_bodies() if b.kind != "closure" and b.impl and b.impl.get("self_adt") == MEC and (b.impl.get("trait") or "").endswith("Drop")]
    for b in drops:
        adds = [s for s in b.calls() if callee_matches(callee_of(s), r"sat_solver::SatSolver::add_clause$")]
        for s in adds:
            lits = tags.literals_of(prog, b, s.node["args"][1], set())
            sel = [l for l in lits if l.role == "SEL"]
            if len(lits) == 1 and sel:
                r.check(sel[0].pos is True, "%s|drop" % b.id, "drop-retires-negatively", "dropping the computer asserts its selector: every clause it added (each carries the selector) is satisfied for good", "dropping the computer adds the unit clause of the *negated* selector: the blocking clauses it added stay in force for every later search on the same solver", s.loc())
            else:
                r.ok("%s|drop" % b.id, "NOT decided: the clause added on drop is not the unit clause of the selector (%s)" % lits, s.loc())
    if not drops:
        r.ok("%s|drop" % MEC, "NOT decided: no Drop impl on the computer", None)


def place_ty_of_(body, place):
    from .satlayer import place_ty

    return place_ty(body, place) or body.local_ty(place["l"])


def rule_query_scoped_decomposition(ctx):
    prog = ctx.prog
    r = ctx.rule(
        "search-on-the-components-of-the-query",
        "an acceptance query searches the connected components of its *listed* arguments only: what is handed to "
        "`merged_connected_components_of` is the query list (mapped to arguments), nothing larger - the stated SAT-call bounds are per "
        "component, and a search over the whole framework multiplies the candidate sets of all components",
    )
    n = 0
    for b in sorted(prog.lib_bodies(), key=lambda x: x.id):
        fn = prog.enclosing_fn(b)
        if not (fn.path.startswith("solvers::") or "<solvers::" in fn.path.split(" as ")[0]):
            continue
        lp = tags_list_params(fn) if b is fn else set()
        for s in b.calls():
            if not callee_matches(callee_of(s), r"ConnectedComponentsComputer::merged_connected_components_of$"):
                continue
            n += 1
            lk = tags.list_kind(prog, b, s.node["args"][1], lp) if lp else None
            if lk is None:
                r.ok("%s|merge" % b.id, "NOT decided: the function has no query-list parameter", s.loc())
                continue
            # what else feeds the merged list: the framework's whole argument set?
            _, calls, _ = data_deps(b, s.node["args"][1])
            whole = any(callee_matches(callee_of(c), r"ArgumentSet::iter$|AAFramework::argument_set$") and not any(callee_matches(callee_of(c2), r"ArgumentSet::get_argument$") for c2 in calls) for c in calls)
            r.check(lk in ("FULL", "PARTIAL") and not whole, "%s|merge" % b.id, "merged-list:%s%s" % (lk, "+whole-set" if whole else ""), "the merged components are those of the listed arguments", "the search runs on the merged components of %s, not of the listed arguments only" % ("every argument of the framework" if whole else "something that is not the query list"), s.loc())
    r.floor(n, 3, "calls of merged_connected_components_of in the solvers")


def rule_maximal_result_from_search(ctx):
    """C01: what a maximal-extension computer hands out"""
    prog = ctx.prog
    from ..prov import prov, show, leaves
    from .grounded import inherited_conditions, _cond_trees

    r = ctx.rule(
        "maximal-result-from-the-search",
        "the sets a MaximalExtensionComputer hands out (`compute_maximal`, `current`, `take_current`) are read from its own search state (the field "
        "holding the current extension) and from nothing else; `compute_maximal` returns only once the state is Maximal",
    )
    adt = prog.adt(MEC)
    if not r.require_anchor(adt, "type " + MEC):
        return
    ext_fields = {f["name"] for v in adt["variants"] for f in v["fields"] if re.search(r"Vec<&.*(Argument|Label)<", f["ty"])}
    n = 0
    for b in sorted(prog.lib_bodies(), key=lambda x: x.id):
        if b.kind == "closure" or not b.impl or b.impl.get("self_adt") != MEC or b.impl.get("trait"):
            continue
        if not re.search(r"^(alloc::vec::Vec<&|&\[&).*(Argument|Label)<", b.ret_ty):
            continue
        n += 1
        trees = list(prov(prog, b, {"l": 0, "p": []}))
        bad = []
        und = False
        for e in trees:
            ls = [l for l in leaves(e)]
            flds = {l[3][0] for l in ls if l[0] == "param" and l[2] == 1 and l[3]}
            if any(l[0] in ("?", "var") for l in ls):
                und = True
            elif not flds or not flds <= ext_fields:
                bad.append((e, flds))
        anchor = b.id + "|result"
        if bad and len(bad) == len(trees):
            r.violation(anchor, "result-source:%s" % sorted(bad[0][1]), "%s never returns the set held by the search (%s) but %s: a set that no SAT call vouched for is handed out as an extension" % (b.path.rsplit("::", 1)[-1], "/".join(sorted(ext_fields)), show(bad[0][0])[:100]), b.loc())
        elif bad:
            # a shortcut that answers without the search can be right (an empty framework) or wrong (a lone self-attacking argument)
            r.ok(anchor, "NOT decided: %s can also return %s, which is not read from the search state (%s); whether that shortcut is an extension is a fact about the semantics" % (b.path.rsplit("::", 1)[-1], show(bad[0][0])[:100], "/".join(sorted(ext_fields))), b.loc())
        elif und:
            r.ok(anchor, "NOT decided: a returned value is not followed to its source", b.loc())
        else:
            r.ok(anchor, "returns the set held by the search state only", b.loc())
        # a method that runs the search to its end: returns under state == Maximal
        if any(callee_matches(callee_of(s), r"MaximalExtensionComputer::compute_next$") for s in b.calls()):
            for s in b.sites():
                nd = s.node
                if s.si is None and nd["k"] == "return":
                    pass
            rets = [bb for bb in b.reachable if b.blocks[bb]["term"]["k"] == "return"]
            for bb in rets:
                conds = _cond_trees(prog, inherited_conditions(prog, b, bb))
                st = [(c, t) for c, t in conds if any(l[0] == "param" and l[2] == 1 and l[3] and "state" in l[3][0] for l in leaves(c))]
                if not st:
                    r.ok(anchor + "|state", "NOT decided: %s has a return that no test of the state governs" % b.path.rsplit("::", 1)[-1], b.loc())
                else:
                    okst = any((c[0] == "call" and c[1].endswith("PartialEq::ne") and t is False) or (c[0] == "call" and c[1].endswith("PartialEq::eq") and t is True) for c, t in st) and any("Maximal" in repr(c) for c, t in st)
                    if okst:
                        r.ok(anchor + "|state", "returns only when the state is Maximal", b.loc())
                    else:
                        r.ok(anchor + "|state", "NOT decided: the state test governing the return is not of a recognised form (%s)" % show(st[0][0])[:80], b.loc())
    r.floor(n, 2, "methods of the computer handing out a set")


def rule_selector_is_next_variable(ctx):
    """C06 / C02 / C03 / C18: a selector is a variable nobody uses yet"""
    prog = ctx.prog
    from ..prov import prov, show, subterms
    from .splits import linear
    from .grounded import _is_call

    r = ctx.rule(
        "selector-is-the-next-variable",
        "a selector literal made from the solver's variable count is `n_vars() + 1`: the first variable the encoding does not use (with `n_vars()` "
        "it is the last variable of the encoding - a range variable or an auxiliary one - and assuming it changes the question)",
    )
    n = 0
    for b in sorted(prog.lib_bodies(), key=lambda x: x.id):
        fnb = prog.enclosing_fn(b)
        if not (fnb.path.startswith("solvers::") or "<solvers::" in fnb.path.split(" as ")[0] or fnb.path.startswith("dynamics::") or "<dynamics::" in fnb.path.split(" as ")[0]):
            continue
        for s in b.calls():
            c = callee_of(s)
            if not (c and callee_decl(c) == "core::convert::From::from" and "sat::sat_solver::Literal" in b.local_ty(s.node["dst"]["l"])):
                continue
            for e in prov(prog, b, s.node["args"][0]):
                if not any(_is_call(t, r"SatSolver::n_vars$") for t in subterms(e)):
                    continue
                n += 1
                v = linear(e, lambda t: "N" if _is_call(t, r"SatSolver::n_vars$") else None)
                anchor = "%s|selector@%s" % (fnb.id, s.bb)
                if v is None:
                    r.ok(anchor, "NOT decided: %s" % show(e)[:80], s.loc())
                else:
                    r.check(v == {"N": 1, 1: 1}, anchor, "selector-value:%s" % sorted(v.items(), key=str), "the selector is n_vars() + 1", "the selector is variable %s: %s" % (" ".join("%+d*%s" % (c_, k) if k != 1 else "%+d" % c_ for k, c_ in sorted(v.items(), key=str)), "a variable of the encoding, not a fresh one" if v.get(1, 0) < 1 else "it leaves a gap below it (harmless for the answers, but every later `n_vars() + 1` assumes the numbering is dense)"), s.loc())
    r.floor(n, 4, "selectors made from the solver's variable count")
