"""C10 / C06 / C03: counters that hand out lazily numbered SAT variables"""
import re

from ..core import callee_of, callee_decl, callee_matches, op_const, op_place, origins, data_deps

_DEREFS = ("core::ops::deref::Deref::deref", "core::ops::deref::DerefMut::deref_mut", "core::clone::Clone::clone", "alloc::rc::Rc::clone")


def _cell_key(body, op):
    """what the receiver of borrow() / borrow_mut() / get() / set() is: a parameter, a field of self, a captured variable"""
    keys = set()
    for o in origins(body, op, transparent=_DEREFS):
        if o.kind == "param":
            keys.add(("param", o.data, tuple(str(f) for f in o.fields)))
        elif o.kind == "upvar":
            keys.add(("upvar", o.data, tuple(str(f) for f in o.fields)))
        else:
            return None
    return next(iter(keys)) if len(keys) == 1 else None


def rule_lazy_variable_counter(ctx):
    prog = ctx.prog
    r = ctx.rule(
        "lazy-variable-counter",
        "encoders that number auxiliary variables lazily from a `usize` cell: wherever the cell is read to name a new variable, the cell is "
        "increased (by a positive constant) on every path that follows in the same function, so that two variables never get the same number",
    )
    n = 0
    for b in sorted(prog.lib_bodies(), key=lambda x: x.id):
        fn = prog.enclosing_fn(b)
        if not (fn.path.startswith("encodings::") or "<encodings::" in fn.path.split(" as ")[0]):
            continue
        reads = {}  # key -> [site]
        incs = {}  # key -> [site]
        other_writes = {}
        for s in b.sites():
            nd = s.node
            if s.si is None or nd["k"] != "assign":
                continue
            # read: `_x = copy (*_b)` with _b from RefCell::borrow(cell)
            if nd["rv"]["k"] == "use" and not nd["dst"]["p"] and b.local_ty(nd["dst"]["l"]) == "usize":
                q = op_place(nd["rv"]["ops"][0])
                if q is not None and q["p"] == ["*"]:
                    for o in origins(b, {"l": q["l"], "p": []}, transparent=("core::ops::deref::Deref::deref",)):
                        if o.kind == "call" and callee_matches(o.data, r"cell::RefCell::borrow$") and "usize" in str(o.data.get("substs")):
                            k = _cell_key(b, o.site.node["args"][0])
                            if k is not None:
                                reads.setdefault(k, []).append(s)
            # write through borrow_mut
            if nd["dst"]["p"] == ["*"] and b.local_ty(nd["dst"]["l"]).replace("&mut ", "").strip() == "usize":
                for o in origins(b, {"l": nd["dst"]["l"], "p": []}, transparent=("core::ops::deref::DerefMut::deref_mut",)):
                    if o.kind == "call" and callee_matches(o.data, r"cell::RefCell::borrow_mut$") and "usize" in str(o.data.get("substs")):
                        k = _cell_key(b, o.site.node["args"][0])
                        if k is None:
                            continue
                        inc = False
                        if nd["rv"]["k"] == "use":
                            for oo in origins(b, nd["rv"]["ops"][0], transparent=()):
                                if oo.kind == "binop" and oo.data["op"] in ("Add", "AddWithOverflow"):
                                    ks = [op_const(x) for x in oo.data["ops"]]
                                    if any(kk is not None and isinstance(kk.get("int"), int) and kk["int"] >= 1 for kk in ks):
                                        inc = True
                        elif nd["rv"]["k"] == "binop" and nd["rv"]["op"] in ("Add", "AddUnchecked"):
                            ks = [op_const(x) for x in nd["rv"]["ops"]]
                            inc = any(kk is not None and isinstance(kk.get("int"), int) and kk["int"] >= 1 for kk in ks)
                        (incs if inc else other_writes).setdefault(k, []).append(s)
        # Cell<usize>: get / set
        for s in b.calls():
            d = callee_decl(callee_of(s))
            if re.search(r"cell::Cell::get$", d) and "usize" in str(callee_of(s).get("substs")):
                k = _cell_key(b, s.node["args"][0])
                if k is not None:
                    reads.setdefault(k, []).append(s)
            elif re.search(r"cell::Cell::set$", d) and "usize" in str(callee_of(s).get("substs")) and len(s.node["args"]) == 2:
                k = _cell_key(b, s.node["args"][0])
                if k is None:
                    continue
                inc = False
                for oo in origins(b, s.node["args"][1], transparent=()):
                    if oo.kind == "binop" and oo.data["op"] in ("Add", "AddWithOverflow"):
                        ks = [op_const(x) for x in oo.data["ops"]]
                        if any(kk is not None and isinstance(kk.get("int"), int) and kk["int"] >= 1 for kk in ks):
                            inc = True
                (incs if inc else other_writes).setdefault(k, []).append(s)
        for k, rs in sorted(reads.items(), key=str):
            for rd in rs:
                # is the value read used as a variable (stored, handed to a call) - or only to compute the increment itself?
                dst = rd.node["dst"]["l"]
                used = False
                for s2 in b.sites():
                    nd2 = s2.node
                    if s2 is rd or (s2.bb, s2.si) == (rd.bb, rd.si):
                        continue
                    if s2.si is None and nd2.get("k") == "call":
                        for a in nd2["args"]:
                            seen, _, _ = data_deps(b, a, through_calls=False)
                            if dst in seen and not re.search(r"cell::Cell::set$|RefCell::borrow", callee_decl(callee_of(s2)) or ""):
                                used = True
                    elif s2.si is not None and nd2["k"] == "assign" and nd2["rv"]["k"] == "aggregate":
                        for a in nd2["rv"]["ops"]:
                            seen, _, _ = data_deps(b, a, through_calls=False)
                            if dst in seen:
                                used = True
                if not used and b.ret_ty == "usize":
                    seen0, _, _ = data_deps(b, {"l": 0, "p": []}, through_calls=False)
                    used = dst in seen0  # `fn new_aux_var(&self) -> usize`: the value read is what the function hands out
                if not used:
                    continue
                n += 1
                anchor = "%s|%s" % (b.id, ".".join(str(x) for x in k))
                mine = incs.get(k, [])
                if not mine and other_writes.get(k):
                    r.ok(anchor, "NOT decided: the counter is rewritten in this function in a form that is not `+= constant`", rd.loc())
                    continue
                ok = any(b.postdominates(i, rd) or (i.bb == rd.bb and (i.si is None or rd.si is None or i.si > rd.si)) for i in mine)
                r.check(ok, anchor, "counter-not-advanced", "the counter read to name a new variable is increased on every path that follows", "the counter is read to name a new auxiliary variable but is not increased on every path that follows: the next auxiliary variable gets the same number, and the two constraints it stands for are merged", rd.loc())
    r.floor(n, 1, "reads of a lazy variable counter that name a new variable")


def rule_range_offset(ctx):
    """C10: the range variables the encoder defines are the ones `first_range_var` tells the solvers to read"""
    prog = ctx.prog
    from ..prov import prov, show, expand_params
    from .splits import linear

    r = ctx.rule(
        "range-offset-agrees",
        "`first_range_var(n)` is called by the solvers with the number of arguments of the encoded framework; wherever an encoder computes a "
        "range variable with the same id->range-variable function, the count it passes is that number of arguments itself (`af.n_arguments()`), "
        "not a multiple or another layout offset: otherwise the range variables that are defined are not the ones that are read",
    )
    ENC = "encodings::specs::ConstraintsEncoder"
    n = 0
    rfns = {}
    for imp in prog.impls_of_trait(ENC):
        for m in imp["methods"]:
            if m["name"] != "first_range_var":
                continue
            b = prog.lib(m["path"])
            if b is None or not b.exits():
                continue
            for s in b.calls():
                t = prog.body_for_callee(callee_of(s), b) if callee_of(s) else None
                if t is not None and t.kind != "closure" and t.ret_ty == "usize" and t.n_args == 2 and t.path.startswith("encodings::"):
                    rfns[t.id] = t

    def lin2(e):
        if isinstance(e, tuple) and e[0] == "op" and e[1] in ("Shl", "ShlUnchecked") and len(e[2]) == 2 and e[2][1][0] == "const" and isinstance(e[2][1][1], int):
            x = lin2(e[2][0])
            return None if x is None else {k: v * (1 << e[2][1][1]) for k, v in x.items()}
        if isinstance(e, tuple) and e[0] == "op" and e[1] in ("Mul", "MulWithOverflow") and len(e[2]) == 2:
            for i in (0, 1):
                if e[2][i][0] == "const" and isinstance(e[2][i][1], int):
                    x = lin2(e[2][1 - i])
                    return None if x is None else {k: v * e[2][i][1] for k, v in x.items()}
        if isinstance(e, tuple) and e[0] == "op" and e[1] in ("Add", "Sub", "AddWithOverflow", "SubWithOverflow") and len(e[2]) == 2:
            x, y = lin2(e[2][0]), lin2(e[2][1])
            if x is None or y is None:
                return None
            out = dict(x)
            for k, v in y.items():
                out[k] = out.get(k, 0) + (v if e[1].startswith("Add") else -v)
            return {k: v for k, v in out.items() if v != 0}
        if isinstance(e, tuple) and e[0] == "field" and e[2] == "0":
            return lin2(e[1])
        return linear(e, lambda t: "N" if (isinstance(t, tuple) and t[0] == "call" and re.search(r"AAFramework::(<.*>::)?n_arguments$", t[1])) else None)

    for t in rfns.values():
        for cs in prog.callers_of(t):
            fn = prog.enclosing_fn(cs.body)
            if fn.impl and fn.impl.get("trait") == ENC and fn.name == "first_range_var":
                continue
            if not (fn.path.startswith("encodings::") or "<encodings::" in fn.path.split(" as ")[0]):
                continue
            n += 1
            anchor = "%s|%s" % (cs.body.id, t.path.rsplit("::", 1)[-1])
            vals = set()
            und = None
            for e in prov(prog, cs.body, cs.node["args"][0]):
                for e2 in expand_params(prog, e, 3):
                    v = lin2(e2)
                    if v is None:
                        und = show(e2)[:70]
                    else:
                        vals.add(tuple(sorted(v.items(), key=str)))
            bad = [v for v in vals if dict(v) != {"N": 1}]
            if bad:
                r.violation(anchor, "range-offset:%s" % (bad[0],), "the range variable is computed with the count %s where the solvers ask `first_range_var` with the number of arguments: the range variables that get defined are not the ones the searches assume, block and read" % " + ".join("%s*%s" % (c, k) for k, c in bad[0]), cs.loc())
            elif und or not vals:
                r.ok(anchor, "NOT decided: the count handed to the range-variable function is not a linear form of n_arguments() (%s)" % (und or "no value"), cs.loc())
            else:
                r.ok(anchor, "the count handed to the range-variable function is the number of arguments of the encoded framework", cs.loc())
    r.floor(n, 2, "range-variable computations in the encoders")


def rule_encoding_loops_exhaust(ctx):
    """C10: an encoder's loop over the framework that emits clauses visits every element"""
    from ..flow import switch_subject
    from ..core import switch_sites

    prog = ctx.prog
    r = ctx.rule(
        "encoding-loops-run-to-the-end",
        "in the encoders, a loop that draws its elements from an iterator (`Iterator::next`) and whose body emits clauses (calls "
        "SatSolver::add_clause, directly or through local functions) is left only when the iterator is exhausted: no `return` / `break` "
        "out of its body on a normally returning path, so that every attacker / argument gets its clauses and its variables",
    )
    emits = {}

    def emitting(t):
        if t.id not in emits:
            emits[t.id] = any(callee_matches(callee_of(x), r"sat_solver::SatSolver::add_clause$") for y in prog.reachable_from([t], virtual_dispatch=False).values() for x in y.calls())
        return emits[t.id]

    n = 0
    seen_loops = 0
    for b in sorted(prog.lib_bodies(), key=lambda x: x.id):
        fn = prog.enclosing_fn(b)
        if not (fn.path.startswith("encodings::") or "<encodings::" in fn.path.split(" as ")[0]):
            continue
        for head, blks in b.loops():
            seen_loops += 1
            nexts = [s for s in b.calls() if s.bb in blks and callee_matches(callee_of(s), r"^core::iter::traits::iterator::Iterator::next$")]
            if not nexts:
                continue
            emit = False
            for s in b.calls():
                if s.bb not in blks or callee_of(s) is None:
                    continue
                if callee_matches(callee_of(s), r"sat_solver::SatSolver::add_clause$"):
                    emit = True
                    break
                t = prog.body_for_callee(callee_of(s), b)
                if t is not None and emitting(t):
                    emit = True
                    break
            if not emit:
                continue
            n += 1
            next_dsts = {s.node["dst"]["l"] for s in nexts if s.node.get("dst")}
            bad = []
            for x in sorted(blks):
                for s_ in b.succ[x]:
                    if s_ in blks or b.blocks[s_]["cleanup"] or not b.can_return(s_):
                        continue
                    sw = Site_of_term(b, x)
                    ok = False
                    if sw is not None and sw.node.get("k") == "switch":
                        sub = switch_subject(b, sw)
                        if sub is not None and sub[0]["l"] in next_dsts:
                            ok = True
                    if not ok:
                        bad.append((x, s_))
            anchor = "%s|loop@%s" % (b.id, "next#%d" % (sorted(h for h, _ in b.loops()).index(head)))
            if bad:
                st = Site_of_term(b, bad[0][0])
                r.violation(anchor, "leaves-early", "this clause-emitting loop can be left before its iterator is exhausted (a `return` / `break` in its body): the remaining elements get no clauses / no variables", st.loc() if st else b.loc())
            else:
                r.ok(anchor, "the loop is left only when its iterator is exhausted", b.loc())
    # expected count on the pinned tree is zero (the encoders emit their clauses from `for_each` closures, where `return` only ends
    # one element); the positive example that must match is the own mutant M-C10q-loop-returns-early of the thorough tier
    r.ok("coverage|encoder-loops", "%d loop(s) of the encoders examined, %d of them draw from an iterator and emit clauses" % (seen_loops, n))


def Site_of_term(body, bb):
    from ..core import Site

    return Site(body, bb, None)
