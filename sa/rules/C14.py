"""C14 - written frameworks and answers read back to the same objects (grammar clauses)"""
from . import io_rules, store


def run(ctx):
    fss = io_rules.rule_framework_writer(ctx)
    readers = io_rules.rule_aspartix_grammar(ctx)
    io_rules.rule_writer_in_reader(ctx, fss, readers)
    io_rules.rule_answer_grammar(ctx)
    io_rules.rule_status_before_witness(ctx)
    store.rule_iterators_filter(ctx)
    ctx.assume("regex-automata's DFA construction and regex-syntax's parser interpret patterns as the regex crate pinned in Cargo.lock does")
    ctx.assume("format_args! template decoding follows library/core/src/fmt/mod.rs; Display of a label prints the label itself (Label::fmt checked by template)")
    return (
        "F9 language inclusion (product of dense DFAs, all strings) of the writer's templates instantiated with the identifier language in the "
        "reader's accepted language, capture-group shape + trim agreement, F5 template tables of the response writers, live-only iteration "
        "(tombstone filtering) of the writer's loops. Decides the grammar clauses; equality of the re-read framework as a value is not decided beyond them."
    )
