"""C02 - credulous acceptance answers match the semantics (narrow clauses only)"""
from . import grounded, accept, cli, provenance, progress


def run(ctx):
    from . import lazyvars as _lazyvars
    _lazyvars.rule_lazy_variable_counter(ctx)
    _lazyvars.rule_range_offset(ctx)
    from . import layout as _layout
    _layout.rule_variable_layout(ctx)
    _layout.rule_clause_templates(ctx)  # the clauses each encoder mode issues are the reference encoding's
    from . import statics as _statics
    _statics.rule_encoder_state_reset(ctx)  # a stateful encoder starts every encoding from scratch
    accept.rule_stable_unsat(ctx, 'credulous')
    from . import splits
    splits.rule_split_contents(ctx)
    from . import invariance
    invariance.rule_component_traversal(ctx)
    accept.rule_running_intersection(ctx)
    progress.rule_ideal_early_exit(ctx)  # the ideal solver's enumeration stops only when the intersection is the grounded extension
    cli.rule_answer_after_solver(ctx)  # the command line prints the status the solver returned, after it returned
    accept.rule_delegation_pairs(ctx)
    provenance.rule_encoded_framework_is_searched(ctx, 'credulous')
    accept.rule_plain_status_follows_model(ctx, 'credulous')
    cli.rule_dispatch(ctx, 'credulous')
    accept.rule_membership_answers(ctx, 'credulous')
    accept.rule_list_quantifiers(ctx, 'credulous')
    accept.rule_status_certificate_pairing(ctx, 'credulous')
    accept.rule_every_listed_argument(ctx, 'credulous')
    accept.rule_certificate_shapes(ctx, 'credulous')
    provenance.rule_literal_provenance(ctx, 'credulous')
    provenance.rule_fresh_solver_per_encoding(ctx, 'credulous')
    provenance.rule_range_encoding(ctx)
    progress.rule_blocking(ctx)
    progress.rule_selector_freshness(ctx)
    progress.rule_local_selector_retired(ctx)
    progress.rule_selector_is_next_variable(ctx)
    progress.rule_state_machine(ctx)
    accept.rule_stage_layering(ctx, 'credulous')
    grounded.rule_grounded_propagation(ctx)
    accept.rule_in_all_flags_polarity(ctx)
    cli.rule_encoder_selection(ctx)  # the CLI hands each solver the encoder of its base semantics, for every --encoding value
    ctx.assume("rustc's MIR and resolved callees; the tables stated in the property (DC-PR through the complete solver)")
    return (
        "F2/F5 on the stable solver (no stable extension in a component => NO for every credulous query, by the constant pair passed by the entry "
        "point), F5 dispatch table (DC-PR answered through the complete solver, every pair to the solver the statement names), membership shape of "
        "the GR answers. NOT decided: `YES exactly when some extension contains the argument` for CO, PR, ST, SST, STG, ID (value clauses)."
    )
