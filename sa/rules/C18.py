"""C18 - every query terminates within a bounded number of SAT calls (progress obligations only)"""
from . import progress


def run(ctx):
    progress.rule_blocking(ctx)
    from . import layout
    layout.rule_clause_templates(ctx)  # the bounds count the sets of the base semantics: the oracle must answer with exactly those
    from . import splits
    splits.rule_split_contents(ctx)
    progress.rule_driver_loops(ctx)
    progress.rule_ideal_early_exit(ctx)
    progress.rule_model_tracks_extension(ctx)
    progress.rule_single_computation(ctx)
    progress.rule_selector_freshness(ctx)
    progress.rule_local_selector_retired(ctx)
    progress.rule_selector_is_next_variable(ctx)
    progress.rule_state_machine(ctx)
    progress.rule_query_scoped_decomposition(ctx)
    ctx.assume("a clause over the complement literals plus the selector excludes every subset of the current set (range) while the selector is assumed false")
    ctx.assume("rustc's MIR; sa/tags.py literal roles")
    return (
        "F6 literal roles + F2 on the closures installed on MaximalExtensionComputer (every satisfiable step adds a complement-plus-selector clause "
        "on all paths, increase functions assume members and the negated selector, fresh searches assume the negated selector, same-range searches "
        "the positive one), loop structure of the drivers and of CO/ST, early exit of the ID enumeration. These are the progress obligations behind "
        "the bounds; termination and the numeric bounds themselves are not decided."
    )
