"""The grounded propagation (utils::grounded_extension_computer): structural obligations of the counting argument, on
provenance trees.  Used by C01/C02/C03 (GR answers and every solver's grounded pre-step) and C11."""
import re

from ..core import callee_of, callee_decl, callee_matches, op_const, op_place
from ..flow import conditions
from ..prov import prov, show, subterms, leaves
from .equiv import _stores_through

MOD = "utils::grounded_extension_computer"


def inherited_conditions(prog, y, bb, depth=0):
    """[(body, Cond)] the branch conditions under which block bb of y runs: its own, and - for a closure handed to an adaptor - those of
    the call site that receives it, up the closure chain"""
    out = [(y, c) for c in conditions(y, bb)]
    if y.kind == "closure" and depth < 4 and y.parent:
        par = prog.by_target[y.target].get(y.parent["direct"])
        if par is not None:
            for cs in par.calls():
                c = callee_of(cs)
                if c is not None and y.path in (c.get("fn_args") or []):
                    out += inherited_conditions(prog, par, cs.bb, depth + 1)
    return out


def _cond_trees(prog, conds):
    """[(tree, truth)] with negations folded into the truth value"""
    out = []
    for y, c in conds:
        if c.is_discr:
            continue
        truth = True if c.is_true() else (False if c.is_false() else None)
        if truth is None:
            continue
        for e in prov(prog, y, c.place):
            t = truth
            while e[0] == "op" and e[1] == "Not":
                t = not t
                e = e[2][0]
            out.append((e, t))
    return out


def _is_call(e, pat, nargs=None):
    return isinstance(e, tuple) and e[0] == "call" and re.search(pat, e[1]) and (nargs is None or len(e[2]) == nargs)


def _peel_id(e):
    return e[2][0] if _is_call(e, r"Label::id$", 1) else None


def rule_grounded_propagation(ctx):
    prog = ctx.prog
    r = ctx.rule(
        "grounded-propagation",
        "grounded extension by counting: an argument starts in the set exactly when the count of its (unfiltered) attackers is 0; a member M "
        "defeats the targets D of its attacks; for a D defeated for the first time (marked in the same step, tested before) each target X of D's "
        "attacks loses one attacker: it joins the set when its counter is 1, otherwise the counter is decremented by 1; nothing else enters the set",
    )
    # the entry point: the function of the module that the rest of the crate calls
    fns = [b for b in prog.lib_bodies() if b.kind != "closure" and b.path.startswith(MOD + "::") and re.match(r"^alloc::vec::Vec<&.*Label<T>>$|^alloc::vec::Vec<&.*Argument<T>>$", b.ret_ty) and any(not c.body.path.startswith(MOD + "::") for c in prog.callers_of(b))]
    if not r.require_anchor(len(fns) == 1, "the function computing the grounded extension in " + MOD):
        return
    F = fns[0]
    bodies = []
    for x in [F] + [x for x in prog.reachable_from([F], virtual_dispatch=False).values() if x.kind != "closure" and x.path.startswith(MOD + "::") and x is not F]:
        for y in prog.with_closures(x):
            if y not in bodies:
                bodies.append(y)
    raw = [(y, s) for y in bodies for s in y.calls() if callee_decl(callee_of(s)) == "alloc::vec::Vec::push" and "Label<" in str(callee_of(s).get("substs"))]
    r.floor(len(raw), 1, "pushes into the extension under construction")
    # a push of a helper's parameter is judged at the helper's call sites (value and governing conditions)
    pushes = []
    for y, s in raw:
        xs = prov(prog, y, s.node["args"][1])
        own = _cond_trees(prog, inherited_conditions(prog, y, s.bb))
        if len(xs) == 1 and next(iter(xs))[0] == "param" and y.kind != "closure" and not next(iter(xs))[3] and prog.callers_of(y):
            kpar = next(iter(xs))[2]
            for cs in prog.callers_of(y):
                if kpar - 1 < len(cs.node["args"]):
                    pushes.append((cs.body, cs, prov(prog, cs.body, cs.node["args"][kpar - 1]), own + _cond_trees(prog, inherited_conditions(prog, cs.body, cs.bb))))
        else:
            pushes.append((y, s, xs, own))
    n_init = n_def = 0
    for k, (y, s, xs, conds) in enumerate(pushes):
        anchor = "%s|member#%d" % (F.id, k)
        if len(xs) != 1:
            r.ok(anchor, "NOT decided: pushed value not one expression", s.loc())
            continue
        x = next(iter(xs))
        if x[0] == "elem" and _is_call(x[1], r"ArgumentSet::iter$|LabelSet::iter$"):
            # an argument of the set: initial member
            n_init += 1
            verdict = None
            from ..prov import expand_params as _xp

            conds_x = [(e2, t) for e, t in conds for e2 in (_xp(prog, e, 2) if y is not F else {e})]
            for e, t in conds_x:
                cnt = None
                if e[0] == "op" and e[1] in ("Eq", "Ne", "Lt", "Le", "Gt", "Ge") and len(e[2]) == 2:
                    for a, b in ((e[2][0], e[2][1]), (e[2][1], e[2][0])):
                        if _is_call(a, r"Iterator::count$", 1) and _is_call(a[2][0], r"iter_attacks_to(_id)?$") and b[0] == "const":
                            same = x in subterms(a) or (_peel_id(a[2][0][2][-1]) == x)
                            if not same and y is not F:
                                # seen through a helper (`register(arg)`): both are the element of the iteration over the argument set
                                # (the receivers differ only by the path the framework took into the helper)
                                ca = a[2][0][2][-1]
                                ca = _peel_id(ca) or ca
                                same = isinstance(ca, tuple) and ca[0] == "elem" and _is_call(ca[1], r"ArgumentSet::iter$|LabelSet::iter$") and len([1 for yy in bodies for ss in yy.calls() if re.search(r"ArgumentSet::iter$", callee_decl(callee_of(ss)) or "")]) == 1
                            filt = [t2[1] for t2 in subterms(a[2][0]) if isinstance(t2, tuple) and t2[0] == "call" and re.search(r"Iterator::(filter|skip|take|step_by)", t2[1])]
                            cnt = (e[1], b[1], t, same, filt, a is e[2][0])
                elif _is_call(e, r"Option::is_none$", 1) and _is_call(e[2][0], r"Iterator::next$") and any(_is_call(t2, r"iter_attacks_to(_id)?$") for t2 in subterms(e)):
                    cnt = ("Eq", 0, t, x in subterms(e), [], True)
                if cnt is None:
                    continue
                op, kconst, t, same, filt, left = cnt
                zero = (op == "Eq" and kconst == 0 and t) or (op == "Ne" and kconst == 0 and not t) or (op == "Lt" and kconst == 1 and t and left) or (op == "Ge" and kconst == 1 and not t and left) or (op == "Le" and kconst == 0 and t and left) or (op == "Gt" and kconst == 0 and not t and left)
                verdict = bool(zero and same and not filt)
                r.check(verdict, anchor, "initial-member-test:%s %s %s" % (op, kconst, t), "an argument starts in the set when its attacker count is 0", "an argument is put into the set at the start under the test `attacker count %s %s is %s`%s%s: not `exactly the unattacked arguments`" % (op, kconst, t, "" if same else " (of another argument)", " (filtered count)" if filt else ""), s.loc())
            if verdict is None:
                r.ok(anchor, "NOT decided: no test of the attacker count governs this push", s.loc())
            continue
        # a defended argument: X = attacked(each(iter_attacks_from(af, D))), D = attacked(each(iter_attacks_from(af, M)))
        X = x
        ok_shape = _is_call(X, r"::attacked$", 1) and X[2][0][0] == "elem" and _is_call(X[2][0][1], r"iter_attacks_from(_id)?$")
        if not ok_shape:
            wrong_dir = _is_call(X, r"::attacker$", 1) or any(_is_call(t2, r"iter_attacks_to(_id)?$") for t2 in subterms(X))
            if wrong_dir:
                r.violation(anchor, "member-source", "an argument enters the set as %s: not `a target of an attack of a defeated argument`" % show(X)[:120], s.loc())
            else:
                r.ok(anchor, "NOT decided: pushed value %s is not recognised" % show(X)[:80], s.loc())
            continue
        n_def += 1
        D = X[2][0][1][2][-1]
        D = _peel_id(D) or D
        d_ok = _is_call(D, r"::attacked$", 1) and D[2][0][0] == "elem" and _is_call(D[2][0][1], r"iter_attacks_from(_id)?$")
        if not d_ok:
            bad_d = _is_call(D, r"::attacker$", 1) or any(_is_call(t2, r"iter_attacks_to(_id)?$") for t2 in subterms(D))
            if bad_d:
                r.violation(anchor, "defeated-source", "the attacks followed to find defended arguments start from %s, which is not `a target of an attack of a member`" % show(D)[:120], s.loc())
            else:
                r.ok(anchor, "NOT decided: the defeated argument %s is not recognised" % show(D)[:80], s.loc())
            continue
        r.ok(anchor, "defended argument: target of an attack of a target of a member's attack", s.loc())
        # the counter test: counter[X] == 1 (then push) - the matching decrement is checked below
        tests = []
        for e, t in conds:
            if e[0] == "op" and e[1] in ("Eq", "Ne", "Le", "Lt") and len(e[2]) == 2 and _is_call(e[2][0], r"Index::index$", 2) and e[2][1][0] == "const" and isinstance(e[2][1][1], int) and not isinstance(e[2][1][1], bool):
                key = _peel_id(e[2][0][2][1])
                tests.append((e[1], e[2][1][1], t, key == X, e[2][0][2][0]))
        if not tests:
            r.ok(anchor + "|counter", "NOT decided: no counter test governs this push", s.loc())
        for op, kconst, t, same, vec in tests:
            last = (op == "Eq" and kconst == 1 and t) or (op == "Ne" and kconst == 1 and not t) or (op == "Le" and kconst == 1 and t) or (op == "Lt" and kconst == 2 and t) or (op == "Eq" and kconst == 0 and t and _decremented_before(prog, y, s))
            r.check(bool(last and same), anchor + "|counter", "counter-test:%s %s %s" % (op, kconst, t), "joins the set when its last undefeated attacker falls (counter is 1)", "a defended argument joins the set under the test `counter %s %s is %s`%s: not `when its last undefeated attacker is defeated`" % (op, kconst, t, "" if same else " on another argument's counter"), s.loc())
        # first-defeat guard: the step runs under `not defeated[D]`, and D is marked in the same step
        guard = [(e, t) for e, t in conds if _is_call(e, r"Index::index$", 2) and (_peel_id(e[2][1]) == D)]
        hidden = [e for e, t in conds if e[0] == "call" and not _is_call(e, r"Index::index$") and D in [_peel_id(a) or a for a in e[2]] + list(e[2])]
        if not guard and hidden:
            r.ok(anchor + "|once", "NOT decided: the first-defeat test is made by %s" % hidden[0][1].rsplit("::", 1)[-1], s.loc())
        elif not guard:
            r.violation(anchor + "|once", "no-first-defeat-guard", "the attackers' counters are lowered for every attack on %s, not only the first time it is defeated: an argument attacked twice by members is counted twice" % show(D)[:80], s.loc())
        else:
            r.check(all(t is False for e, t in guard), anchor + "|once", "guard-polarity", "the step runs only the first time D is defeated", "the counters are lowered only when the defeated argument was *already* marked", s.loc())
            marked = False
            for y2 in bodies:
                for s2 in y2.calls():
                    if callee_decl(callee_of(s2)) == "core::ops::index::IndexMut::index_mut" and "bool" in str(callee_of(s2).get("substs")):
                        for e2 in prov(prog, y2, s2.node["args"][1]):
                            if _peel_id(e2) == D and any((op_const(o) or {}).get("bool") is True for o in _stores_through(y2, s2)):
                                marked = True
            r.check(marked, anchor + "|once", "defeat-not-marked", "D is marked as defeated in the same step", "the defeated argument is never marked: it is processed again at each later attack on it", s.loc())
    # decrements of the counter vector: by exactly 1, for the same X shape, on the other arm of the counter test
    n_dec = 0
    for y in bodies:
        for s in y.calls():
            if callee_decl(callee_of(s)) != "core::ops::index::IndexMut::index_mut" or "bool" in str(callee_of(s).get("substs")):
                continue
            for op in _stores_through(y, s):
                for e in prov(prog, y, op):
                    core_ = e[1] if e[0] == "field" and e[2] == "0" and e[1][0] == "op" else e
                    if core_[0] == "op" and core_[1] in ("Sub", "SubWithOverflow") and len(core_[2]) == 2:
                        n_dec += 1
                        step = core_[2][1]
                        anchor = "%s|decrement#%d" % (F.id, n_dec)
                        r.check(step == ("const", 1), anchor, "step:%s" % show(step), "a defeated attacker lowers the counter by 1", "the counter is lowered by %s per defeated attacker" % show(step), s.loc())
                        idxs = prov(prog, y, s.node["args"][1])
                        if y is not F:
                            # a helper that is handed the argument whose counter it lowers (`release(att.attacked())`): what its callers pass
                            from ..prov import expand_params as _xp2

                            idxs = [i2 for i in idxs for i2 in _xp2(prog, i, 2)]
                        X2 = [_peel_id(i) for i in idxs]
                        shape = all(x2 is not None and _is_call(x2, r"::attacked$", 1) and x2[2][0][0] == "elem" and _is_call(x2[2][0][1], r"iter_attacks_from(_id)?$") for x2 in X2)
                        if X2 and all(x2 is not None for x2 in X2):
                            r.check(shape, anchor, "decrement-target", "the counter lowered is that of a target of the defeated argument's attacks", "the counter lowered is that of %s" % show(X2[0])[:100], s.loc())
    r.note("%d initial-member pushes, %d defended-member pushes, %d counter decrements analysed" % (n_init, n_def, n_dec))
    r.floor(n_init + n_def, 2, "classified pushes (initial + defended)")


def _decremented_before(prog, y, push_site):
    """`counter -= 1; if counter == 0 { push }` form: a decrement of the counter dominates the push in the same body"""
    for s in y.calls():
        if callee_decl(callee_of(s)) == "core::ops::index::IndexMut::index_mut" and y.dominates(s, push_site):
            for op in _stores_through(y, s):
                for e in prov(prog, y, op):
                    core_ = e[1] if e[0] == "field" and e[2] == "0" and e[1][0] == "op" else e
                    if core_[0] == "op" and core_[1] in ("Sub", "SubWithOverflow"):
                        return True
    return False
