"""Fact loader and basic program analyses (CFG, dominators, def-use, origins, call graph).

Everything here works on the JSON facts produced by tools/mirfacts from /repo's current tree.
Python standard library only.
"""
import json
import glob
import os
import re
from collections import defaultdict

CRATE = "crustabri"


def _norm(s):
    # lib items are referred to as `crustabri::x` from the bins and as `x` inside the lib
    return s.replace("crustabri::", "") if "crustabri::" in s else s


def _norm_deep(o):
    if isinstance(o, str):
        return _norm(o)
    if isinstance(o, list):
        return [_norm_deep(x) for x in o]
    if isinstance(o, dict):
        return {k: _norm_deep(v) for k, v in o.items()}
    return o


# ------------------------------------------------------------------------------------------
# places and operands


def place_local(p):
    return p["l"]


def place_is_local(p):
    return not p["p"]


def op_place(op):
    """place read by an operand, or None for constants"""
    if "c" in op:
        return op["c"]
    if "m" in op:
        return op["m"]
    return None


def op_const(op):
    return op.get("k")


def proj_str(p):
    out = "_%d" % p["l"]
    for e in p["p"]:
        if e == "*":
            out = "(*%s)" % out
        elif isinstance(e, dict) and "f" in e:
            out += ".%s" % (e.get("name") if e.get("name") is not None else e["f"])
        elif isinstance(e, dict) and "dc" in e:
            out += " as %s" % e.get("name")
        elif isinstance(e, dict) and "idx" in e:
            out += "[_%d]" % e["idx"]
        elif isinstance(e, dict) and "cidx" in e:
            out += "[%d]" % e["cidx"]
        else:
            out += "<%s>" % (e,)
    return out


def place_fields(p):
    """names of the fields projected, outermost first"""
    return [e.get("name") if e.get("name") is not None else e["f"] for e in p["p"] if isinstance(e, dict) and "f" in e]


class Site:
    """a program point: (body, block index, statement index or None for the terminator)"""

    __slots__ = ("body", "bb", "si")

    def __init__(self, body, bb, si=None):
        self.body = body
        self.bb = bb
        self.si = si

    @property
    def node(self):
        blk = self.body.blocks[self.bb]
        return blk["term"] if self.si is None else blk["stmts"][self.si]

    @property
    def line(self):
        return self.node.get("line")

    def loc(self):
        return "%s:%s" % (self.body.file, self.line)

    def __repr__(self):
        return "<%s bb%d%s %s>" % (self.body.path, self.bb, "" if self.si is None else ".%d" % self.si, self.loc())


class Body:
    def __init__(self, d, target):
        self.d = d
        self.target = target  # 'lib' | 'bin:<name>'
        self.path = d["path"]
        self.kind = d["kind"]
        self.name = d.get("name")
        self.file = d["file"]
        self.line_lo = d["line_lo"]
        self.line_hi = d["line_hi"]
        self.blocks = d["blocks"]
        self.locals = d["locals"]
        self.n_args = d["n_args"]
        self.ret_ty = d["ret_ty"]
        self.impl = d.get("impl")
        self.trait_method = d.get("trait_method")
        self.vis = d.get("vis")
        self.parent = d.get("parent")
        self.upvars = d.get("upvars") or []
        self.from_expansion = d.get("from_expansion", False)
        self.debug = d.get("debug") or []
        self._succ = None
        self._pred = None
        self._dom = None
        self._pdom = None
        self._defs = None
        self._reach = None
        self.names = {}
        for v in self.debug:
            val = v["v"]
            if "l" in val and not val["p"]:
                self.names.setdefault(val["l"], v["name"])

    # ---- identity
    @property
    def id(self):
        return self.path if self.target == "lib" else "%s::%s" % (self.target, self.path)

    def loc(self):
        return "%s:%d" % (self.file, self.line_lo)

    def local_name(self, l):
        return self.names.get(l)

    def local_ty(self, l):
        return self.locals[l]["ty"]

    def upvar_name(self, field):
        for u in self.upvars:
            if u["field"] == field:
                return u["name"]
        return None

    # ---- CFG (cleanup blocks and unwind edges are not part of it)
    def _build_cfg(self):
        n = len(self.blocks)
        succ = [[] for _ in range(n)]
        for i, b in enumerate(self.blocks):
            if b["cleanup"]:
                continue
            t = b["term"]
            k = t["k"]
            if k in ("goto", "drop", "assert"):
                succ[i].append(t["target"])
            elif k == "call":
                if t.get("target") is not None:
                    succ[i].append(t["target"])
            elif k == "switch":
                for _, bb in t["targets"]:
                    if bb not in succ[i]:
                        succ[i].append(bb)
                if t["otherwise"] not in succ[i]:
                    succ[i].append(t["otherwise"])
            elif k == "other":
                # yield / inline asm / tail call: not present in this crate; fail closed
                raise AnalysisError("unsupported terminator in %s: %s" % (self.path, t.get("dbg")))
        pred = [[] for _ in range(n)]
        for i, ss in enumerate(succ):
            for s in ss:
                pred[s].append(i)
        self._succ, self._pred = succ, pred
        # reachable from entry
        seen = {0}
        st = [0]
        while st:
            x = st.pop()
            for s in succ[x]:
                if s not in seen:
                    seen.add(s)
                    st.append(s)
        self._reach = seen

    @property
    def succ(self):
        if self._succ is None:
            self._build_cfg()
        return self._succ

    @property
    def pred(self):
        if self._pred is None:
            self._build_cfg()
        return self._pred

    @property
    def reachable(self):
        if self._reach is None:
            self._build_cfg()
        return self._reach

    def is_unreachable_block(self, bb):
        """blocks that only hold `unreachable` (the otherwise arm of exhaustive matches)"""
        return self.blocks[bb]["term"]["k"] == "unreachable" and not self.blocks[bb]["stmts"]

    def exits(self):
        """blocks ending in `return`"""
        return [i for i in self.reachable if self.blocks[i]["term"]["k"] == "return"]

    def diverging_blocks(self):
        """reachable non-cleanup blocks with no successor that are not returns (panics, exit)"""
        return [i for i in self.reachable if not self.succ[i] and self.blocks[i]["term"]["k"] != "return"]

    @staticmethod
    def _dominators(n, entry_nodes, succ, pred, nodes):
        # iterative set-based algorithm; bodies are small
        nodes = list(nodes)
        full = set(nodes)
        dom = {x: set(full) for x in nodes}
        for e in entry_nodes:
            dom[e] = {e}
        changed = True
        while changed:
            changed = False
            for x in nodes:
                if x in entry_nodes:
                    continue
                ps = [p for p in pred[x] if p in dom]
                if not ps:
                    new = {x}
                else:
                    new = set.intersection(*(dom[p] for p in ps)) | {x}
                if new != dom[x]:
                    dom[x] = new
                    changed = True
        return dom

    @property
    def dom(self):
        """dom[b] = set of blocks dominating b (including b)"""
        if self._dom is None:
            self._dom = self._dominators(len(self.blocks), {0}, self.succ, self.pred, sorted(self.reachable))
        return self._dom

    @property
    def pdom(self):
        """pdom[b] = set of blocks post-dominating b w.r.t. normal returns (diverging exits are
        ignored: a path that panics is not a path on which an obligation must be met)"""
        if self._pdom is None:
            exits = set(self.exits())
            # nodes that can reach a return
            can = set(exits)
            st = list(exits)
            while st:
                x = st.pop()
                for p in self.pred[x]:
                    if p in self.reachable and p not in can:
                        can.add(p)
                        st.append(p)
            succ_r = {x: [s for s in self.succ[x] if s in can] for x in can}
            # reverse graph: pred := succ restricted
            self._pdom = self._dominators(len(self.blocks), exits, None, succ_r, sorted(can))
            self._can_return = can
        return self._pdom

    def can_return(self, bb):
        _ = self.pdom
        return bb in self._can_return

    def dominates(self, a, b):
        """site/block a dominates b"""
        (ab, ai), (bb_, bi) = _pt(a), _pt(b)
        if ab == bb_:
            return _idx(ai) <= _idx(bi)
        return bb_ in self.dom and ab in self.dom[bb_]

    def postdominates(self, a, b):
        """a post-dominates b on all normally returning paths"""
        (ab, ai), (bb_, bi) = _pt(a), _pt(b)
        if ab == bb_:
            return _idx(ai) >= _idx(bi)
        return bb_ in self.pdom and ab in self.pdom[bb_]

    def reaches(self, a, b, avoid=()):
        """is there a CFG path from block a to block b (length >= 1) avoiding blocks in `avoid`"""
        seen = set()
        st = [s for s in self.succ[a] if s not in avoid]
        while st:
            x = st.pop()
            if x == b:
                return True
            if x in seen:
                continue
            seen.add(x)
            for s in self.succ[x]:
                if s not in avoid:
                    st.append(s)
        return False

    def blocks_reachable_from(self, a, avoid=()):
        seen = set()
        st = [s for s in self.succ[a] if s not in avoid]
        while st:
            x = st.pop()
            if x in seen:
                continue
            seen.add(x)
            for s in self.succ[x]:
                if s not in avoid:
                    st.append(s)
        return seen

    def loops(self):
        """natural loops: list of (head, body_blocks)"""
        out = {}
        for b in self.reachable:
            for s in self.succ[b]:
                if s in self.dom.get(b, ()):  # back edge b -> s
                    body = {s, b}
                    st = [b]
                    while st:
                        x = st.pop()
                        if x == s:
                            continue
                        for p in self.pred[x]:
                            if p in self.reachable and p not in body:
                                body.add(p)
                                st.append(p)
                    out.setdefault(s, set()).update(body)
        return sorted(out.items())

    def in_loop(self, bb):
        return [h for h, blks in self.loops() if bb in blks]

    # ---- statements
    def sites(self):
        for i in sorted(self.reachable):
            b = self.blocks[i]
            if b["cleanup"]:
                continue
            for si, _ in enumerate(b["stmts"]):
                yield Site(self, i, si)
            yield Site(self, i, None)

    def calls(self):
        for i in sorted(self.reachable):
            b = self.blocks[i]
            if b["cleanup"]:
                continue
            t = b["term"]
            if t["k"] == "call":
                yield Site(self, i, None)

    def calls_to(self, pred):
        """call sites whose callee satisfies pred(callee_dict)"""
        for s in self.calls():
            c = s.node.get("callee")
            if c is not None and pred(c):
                yield s

    # ---- def-use
    @property
    def defs(self):
        """local -> list of Site that assign the *whole* local (stmts and call destinations)"""
        if self._defs is None:
            d = defaultdict(list)
            pd = defaultdict(list)  # partial definitions (through projections)
            for s in self.sites():
                n = s.node
                if s.si is not None:
                    if n["k"] in ("assign", "setdiscr"):
                        dst = n["dst"]
                        (d if not dst["p"] else pd)[dst["l"]].append(s)
                elif n["k"] == "call":
                    dst = n["dst"]
                    (d if not dst["p"] else pd)[dst["l"]].append(s)
            self._defs = d
            self._pdefs = pd
        return self._defs

    @property
    def partial_defs(self):
        _ = self.defs
        return self._pdefs

    @property
    def mut_call_defs(self):
        """local -> call sites that receive a `&mut` borrow of (a projection of) the local: the
        call may write it (e.g. Vec::push(&mut v, x), Vec::append(&mut v, &mut w))"""
        if getattr(self, "_mcd", None) is None:
            ref_of = {}
            changed = True
            # direct borrows
            for s in self.sites():
                n = s.node
                if s.si is not None and n["k"] == "assign" and not n["dst"]["p"]:
                    rv = n["rv"]
                    if rv["k"] in ("ref", "rawptr") and rv.get("mut"):
                        base = rv["place"]["l"]
                        deref_first = bool(rv["place"]["p"]) and rv["place"]["p"][0] == "*"
                        ref_of.setdefault(n["dst"]["l"], set()).add((base, deref_first))
            # resolve reborrows  _c = &mut (*_a)  where _a is itself a borrow
            res = {}
            def resolve(l, depth=0):
                if l in res:
                    return res[l]
                out = set()
                res[l] = out
                for base, deref_first in ref_of.get(l, ()):
                    if deref_first and base in ref_of and depth < 8:
                        out |= resolve(base, depth + 1)
                    elif deref_first:
                        out.add(base)  # reborrow of a reference held in a parameter/local
                    else:
                        out.add(base)
                return out
            d = defaultdict(list)
            for s in self.calls():
                for a in s.node["args"]:
                    p = op_place(a)
                    if p is not None and not p["p"] and p["l"] in ref_of:
                        for base in resolve(p["l"]):
                            d[base].append(s)
            self._mcd = d
        return self._mcd

    @property
    def ptr_store_defs(self):
        """local -> assignment sites that store through a raw pointer derived from a Box held in the
        local (the `vec![..]` lowering: Box::new_uninit + store + box_assume_init_into_vec_unsafe)"""
        if getattr(self, "_psd", None) is None:
            d = defaultdict(list)
            for s in self.sites():
                n = s.node
                if s.si is None or n["k"] != "assign":
                    continue
                dst = n["dst"]
                if not dst["p"] or dst["p"][0] != "*":
                    continue
                ty = self.local_ty(dst["l"])
                if not ty.startswith("*"):
                    continue
                for o in origins(self, {"l": dst["l"], "p": []}, transparent=()):
                    if o.kind == "call" and o.site is not None:
                        d[o.site.node["dst"]["l"]].append(s)
            self._psd = d
        return self._psd

    def uses_of(self, local):
        """sites reading `local` (as operand base, ref base, or call argument)"""
        out = []
        for s in self.sites():
            if local in site_reads(s):
                out.append(s)
        return out


class AnalysisError(Exception):
    pass


def _pt(x):
    if isinstance(x, Site):
        return (x.bb, x.si)
    if isinstance(x, tuple):
        return x
    return (x, -1)  # block start


def _idx(si):
    if si is None:
        return 1 << 30
    return si


def rvalue_operands(rv):
    return rv.get("ops") or []


def rvalue_places(rv):
    out = []
    for o in rvalue_operands(rv):
        p = op_place(o)
        if p is not None:
            out.append(p)
    if "place" in rv:
        out.append(rv["place"])
    return out


def site_reads(s):
    """locals read at this site"""
    n = s.node
    out = set()

    def add_place(p):
        out.add(p["l"])
        for e in p["p"]:
            if isinstance(e, dict) and "idx" in e:
                out.add(e["idx"])

    if s.si is not None:
        if n["k"] == "assign":
            for p in rvalue_places(n["rv"]):
                add_place(p)
            for e in n["dst"]["p"]:
                if isinstance(e, dict) and "idx" in e:
                    out.add(e["idx"])
            if n["dst"]["p"]:
                out.add(n["dst"]["l"])
    else:
        k = n["k"]
        if k == "call":
            for a in n["args"]:
                p = op_place(a)
                if p is not None:
                    add_place(p)
            if "callee_op" in n:
                p = op_place(n["callee_op"])
                if p is not None:
                    add_place(p)
        elif k == "switch":
            p = op_place(n["discr"])
            if p is not None:
                add_place(p)
        elif k == "assert":
            p = op_place(n["cond"])
            if p is not None:
                add_place(p)
        elif k == "drop":
            add_place(n["place"])
    return out


# ------------------------------------------------------------------------------------------
# callee helpers


def callee_of(site):
    n = site.node
    if n.get("k") != "call":
        return None
    return n.get("callee")


def callee_name(c):
    """best path for a callee: the resolved instance when there is one"""
    if c is None:
        return None
    return c.get("resolved") or c["decl"]


_GEN = re.compile(r"::<[^:]*?>(?=::|$)")


def strip_generics(path):
    """`std::vec::Vec::<T, A>::push` -> `std::vec::Vec::push` (balanced)"""
    out = []
    depth = 0
    i = 0
    while i < len(path):
        ch = path[i]
        if depth == 0 and path.startswith("::<", i):
            depth = 1
            i += 3
            continue
        if depth > 0:
            if ch == "<":
                depth += 1
            elif ch == ">":
                depth -= 1
            i += 1
            continue
        out.append(ch)
        i += 1
    return "".join(out)


def callee_decl(c):
    """declared path of the callee, generics stripped (for trait methods: Trait::method)"""
    if c is None:
        return ""
    return strip_generics(c["decl"])


def is_try_residual(c):
    """the `?` operator's error-propagating call"""
    return callee_decl(c) == "core::ops::try_trait::FromResidual::from_residual"


def callee_is(c, *names):
    """does the callee (declared or resolved, generics stripped) equal one of the paths"""
    if c is None:
        return False
    for p in (c["decl"], c.get("resolved")):
        if p and strip_generics(p) in names:
            return True
    return False


def callee_matches(c, regex):
    if c is None:
        return False
    for p in (c["decl"], c.get("resolved")):
        if p and re.search(regex, strip_generics(p)):
            return True
    return False


PANIC_FNS = (
    "core::panicking::panic_fmt",
    "core::panicking::panic",
    "core::panicking::panic_explicit",
    "core::panicking::unreachable_display",
    "core::panicking::panic_display",
    "core::panicking::assert_failed",
    "core::panicking::panic_nounwind",
    "std::rt::begin_panic",
    "std::rt::panic_fmt",
    "core::option::expect_failed",
    "core::option::unwrap_failed",
    "core::result::unwrap_failed",
    "core::panicking::panic_bounds_check",
    "std::process::exit",
    "std::process::abort",
)


# ------------------------------------------------------------------------------------------
# program


class Program:
    def __init__(self, facts_dir, nonce=None):
        self.targets = {}
        self.bodies = {}  # id -> Body
        self.by_target = defaultdict(dict)  # target -> path -> Body
        self.adts = {}  # path -> adt (lib first)
        self.adts_by_target = defaultdict(dict)
        self.impls = []
        self.traits = {}
        self.consts = {}
        self.sigs = {}
        self.unsafe = []
        self.ext_enums = {}  # path -> {variants: [{name, idx, discr}]} for enums of other crates whose discriminant is read
        files = sorted(glob.glob(os.path.join(facts_dir, "*.json")))
        if not files:
            raise AnalysisError("no fact files in %s" % facts_dir)
        for f in files:
            with open(f) as fh:
                doc = json.load(fh)
            if nonce is not None and doc.get("nonce") != nonce:
                raise AnalysisError("stale fact file %s (nonce %r, wanted %r)" % (f, doc.get("nonce"), nonce))
            doc = _norm_deep(doc)
            kind = doc["target_kind"]
            tname = "lib" if kind == "lib" else "bin:%s" % doc["crate"]
            if tname in self.targets:
                raise AnalysisError("two fact files for target %s" % tname)
            self.targets[tname] = doc
            for b in doc["bodies"]:
                body = Body(b, tname)
                self.bodies[body.id] = body
                self.by_target[tname][body.path] = body
            for a in doc["adts"]:
                self.adts_by_target[tname][a["path"]] = a
                if tname == "lib":
                    self.adts[a["path"]] = a
            for e in doc.get("ext_enums", []):
                self.ext_enums[e["path"]] = e
            for i in doc["impls"]:
                i = dict(i)
                i["target"] = tname
                self.impls.append(i)
            for t in doc["traits"]:
                if tname == "lib":
                    self.traits[t["path"]] = t
            for c in doc["consts"]:
                self.consts[(tname, c["path"])] = c
            for s in doc["sigs"]:
                self.sigs[(tname, s["path"])] = s
            for u in doc["unsafe"]:
                u = dict(u)
                u["target"] = tname
                self.unsafe.append(u)
        self._callers = None
        self._closure_children = None

    # -- lookup
    def lib(self, path):
        return self.by_target["lib"].get(path)

    def lib_bodies(self):
        return list(self.by_target["lib"].values())

    def bin_targets(self):
        return sorted(t for t in self.targets if t.startswith("bin:"))

    def bodies_in(self, target):
        return list(self.by_target[target].values())

    def find(self, regex, target="lib"):
        r = re.compile(regex)
        return [b for p, b in sorted(self.by_target[target].items()) if r.search(p)]

    def body_for_callee(self, c, frm):
        """the local Body a call resolves to (same target first, then the lib), or None"""
        if c is None:
            return None
        for p in (c.get("resolved"), c["decl"]):
            if not p:
                continue
            b = self.by_target[frm.target].get(p) or self.by_target["lib"].get(p)
            if b is not None:
                return b
        return None

    def closures_of(self, body):
        """closure bodies defined (directly or nested) in `body`"""
        if self._closure_children is None:
            cc = defaultdict(list)
            for b in self.bodies.values():
                if b.kind == "closure" and b.parent:
                    key = (b.target, b.parent["direct"])
                    cc[key].append(b)
            self._closure_children = cc
        out = []
        st = [body]
        while st:
            x = st.pop()
            for c in self._closure_children.get((x.target, x.path), []):
                out.append(c)
                st.append(c)
        return out

    def with_closures(self, body):
        return [body] + self.closures_of(body)

    def impls_of_trait(self, trait_path, target="lib"):
        return [i for i in self.impls if i["trait"] == trait_path and i["target"] == target]

    def impl_methods(self, trait_path, method, target="lib"):
        """bodies of `method` in every impl of `trait_path`"""
        out = []
        for i in self.impls_of_trait(trait_path, target):
            for m in i["methods"]:
                if m["name"] == method:
                    b = self.by_target[target].get(m["path"])
                    if b is not None:
                        out.append((i, b))
        return out

    def adt(self, path):
        return self.adts.get(path)

    # -- call graph
    def callees(self, body, include_closures=True, virtual_dispatch=True):
        """(site, callee Body) pairs for local callees of `body` (and of its closures)"""
        out = []
        bodies = self.with_closures(body) if include_closures else [body]
        for b in bodies:
            for s in b.calls():
                c = callee_of(s)
                if c is None:
                    continue
                tgt = self.body_for_callee(c, b)
                # function items / closures handed over as generic arguments may be called by the callee
                for fa in c.get("fn_args") or []:
                    fb = self.by_target[b.target].get(fa) or self.by_target["lib"].get(fa)
                    if fb is not None and fb.kind != "closure":
                        out.append((s, fb))
                if tgt is not None:
                    out.append((s, tgt))
                elif virtual_dispatch and c.get("virtual") and c.get("trait") in self.traits:
                    mname = c["decl"].rsplit("::", 1)[-1]
                    for _, mb in self.impl_methods(c["trait"], mname):
                        out.append((s, mb))
                elif virtual_dispatch and c.get("trait") in self.traits and not c.get("resolved"):
                    # unresolved generic trait call: all impls
                    mname = c["decl"].rsplit("::", 1)[-1]
                    for _, mb in self.impl_methods(c["trait"], mname):
                        out.append((s, mb))
        return out

    def reachable_from(self, roots, virtual_dispatch=True):
        """bodies reachable from roots through local calls, closures and virtual dispatch"""
        seen = {}
        st = list(roots)
        while st:
            b = st.pop()
            if b.id in seen:
                continue
            seen[b.id] = b
            for c in self.closures_of(b):
                if c.id not in seen:
                    st.append(c)
            for _, t in self.callees(b, include_closures=False, virtual_dispatch=virtual_dispatch):
                if t.id not in seen:
                    st.append(t)
        return seen

    def callers_of(self, body):
        if self._callers is None:
            cs = defaultdict(list)
            for b in self.bodies.values():
                for s in b.calls():
                    c = callee_of(s)
                    if c is None:
                        continue
                    t = self.body_for_callee(c, b)
                    if t is not None:
                        cs[t.id].append(s)
            self._callers = cs
        return self._callers.get(body.id, [])

    def enclosing_fn(self, body):
        """the fn/method body that (transitively) defines closure `body`"""
        if body.kind != "closure":
            return body
        return self.by_target[body.target].get(body.parent["fn"])


# ------------------------------------------------------------------------------------------
# origin tracing (flow-insensitive, through copies / moves / borrows / casts / derefs)

TRANSPARENT_CALLS = (
    "core::ops::deref::Deref::deref",
    "core::ops::deref::DerefMut::deref_mut",
    "core::convert::AsRef::as_ref",
    "core::convert::AsMut::as_mut",
    "core::borrow::Borrow::borrow",
    "core::borrow::BorrowMut::borrow_mut",
    "core::clone::Clone::clone",
    "core::convert::Into::into",
    "core::convert::From::from",
    "core::cell::RefCell::borrow",
    "core::cell::RefCell::borrow_mut",
    "alloc::rc::Rc::clone",
    "alloc::boxed::Box::new",
    "core::option::Option::unwrap",
    "core::option::Option::expect",
    "core::option::Option::as_ref",
    "core::option::Option::as_mut",
    "core::result::Result::unwrap",
    "core::result::Result::expect",
    "alloc::vec::Vec::as_slice",
    "alloc::vec::Vec::as_mut_slice",
    "core::iter::traits::collect::IntoIterator::into_iter",
    "core::slice::iter",
    "core::hint::must_use",
)


class Origin:
    """a root of a value: kind in {'param','call','const','agg','discr','binop','unop','upvar','unknown','len'}"""

    __slots__ = ("kind", "body", "site", "data", "fields")

    def __init__(self, kind, body, site=None, data=None, fields=()):
        self.kind = kind
        self.body = body
        self.site = site
        self.data = data
        self.fields = tuple(fields)

    def key(self):
        s = (self.site.bb, self.site.si) if self.site else None
        return (self.kind, s, repr(self.data), self.fields)

    def __repr__(self):
        return "Origin(%s %s %s %s)" % (self.kind, self.data if self.kind != "call" else callee_name(self.data), self.fields, self.site.loc() if self.site else "")


BLOCK_EXCLUDE = {}  # body id -> blocks to ignore as definition sites (a constant-specialised view of the body, see excluded_blocks)


class excluded_blocks:
    """`with excluded_blocks(body, blocks):` - origins() ignores definitions made in these blocks of the body (the blocks a constant
    value of a parameter rules out), for every analysis built on it"""

    def __init__(self, body, blocks):
        self.body, self.blocks = body, frozenset(blocks)

    def __enter__(self):
        self.old = BLOCK_EXCLUDE.get(self.body.id)
        BLOCK_EXCLUDE[self.body.id] = self.blocks
        return self

    def __exit__(self, *a):
        if self.old is None:
            BLOCK_EXCLUDE.pop(self.body.id, None)
        else:
            BLOCK_EXCLUDE[self.body.id] = self.old
        return False


def origins(body, place_or_op, transparent=TRANSPARENT_CALLS, max_steps=2000, def_filter=None, index_origins=False):
    """set of Origins a place/operand may derive its value from (peeling copies, refs, casts,
    derefs, field projections and `transparent` calls' first argument).  With index_origins, a place that indexes a slice / array
    (`(*p)[i]`, a MIR projection, where a Vec would call Index::index) is an Origin 'index' with data {base place, idx local | cidx}"""
    out = {}
    seen = set()
    work = []

    def push_place(p, fields):
        if index_origins:
            for k, e in enumerate(p["p"]):
                if isinstance(e, dict) and ("idx" in e or "cidx" in e):
                    rest = {"l": 0, "p": p["p"][k + 1 :]}
                    o = Origin("index", body, None, {"base": {"l": p["l"], "p": p["p"][:k]}, "idx": e.get("idx"), "cidx": e.get("cidx")}, tuple(place_fields(rest)) + tuple(fields))
                    out[o.key()] = o
                    return
        flds = tuple(place_fields(p)) + tuple(fields)
        work.append((p["l"], flds))

    def push_op(op, fields):
        k = op_const(op)
        if k is not None:
            o = Origin("const", body, None, k, fields)
            out[o.key()] = o
            return
        p = op_place(op)
        if p is not None:
            push_place(p, fields)

    if "l" in place_or_op:
        push_place(place_or_op, ())
    else:
        push_op(place_or_op, ())
    steps = 0
    while work:
        steps += 1
        if steps > max_steps:
            o = Origin("unknown", body, None, "step limit")
            out[o.key()] = o
            break
        l, fields = work.pop()
        if (l, fields) in seen:
            continue
        seen.add((l, fields))
        if 1 <= l <= body.n_args:
            # closure environment (arg 1 of a closure body) with a field projection = upvar
            if body.kind == "closure" and l == 1 and fields:
                o = Origin("upvar", body, None, fields[0], fields[1:])
            else:
                o = Origin("param", body, None, l, fields)
            out[o.key()] = o
            # parameters can also be reassigned; continue to look at defs
        ds = body.defs.get(l, [])
        if def_filter is not None and len(ds) > 1:
            ds = def_filter(l, ds)
        excl = BLOCK_EXCLUDE.get(body.id)
        if excl and len(ds) > 1:
            ds = [d for d in ds if d.bb not in excl] or ds
        if not ds and not (1 <= l <= body.n_args):
            # only partially defined (aggregate built field by field) or never (ZST)
            pds = body.partial_defs.get(l, [])
            if pds:
                o = Origin("partial", body, pds[0], l, fields)
            else:
                o = Origin("undef", body, None, l, fields)
            out[o.key()] = o
        for s in ds:
            n = s.node
            if s.si is None:  # call destination
                c = n.get("callee")
                if c is not None and callee_is(c, *transparent) and n["args"]:
                    push_op(n["args"][0], fields)
                else:
                    o = Origin("call", body, s, c if c is not None else {"decl": "<indirect>", "resolved": None}, fields)
                    out[o.key()] = o
                continue
            if n["k"] == "setdiscr":
                continue
            rv = n["rv"]
            k = rv["k"]
            if k in ("use", "cast"):
                push_op(rv["ops"][0], fields)
            elif k in ("ref", "rawptr"):
                push_place(rv["place"], fields)
            elif k == "aggregate":
                agg = rv["agg"]
                if fields and agg["kind"] in ("adt", "tuple", "closure"):
                    # project the field out of the aggregate when it can be identified
                    f0 = fields[0]
                    idx = None
                    if agg["kind"] == "adt" and f0 in (agg.get("field_names") or []):
                        idx = agg["field_names"].index(f0)
                    elif isinstance(f0, int) and f0 < len(rv["ops"]):
                        idx = f0
                    elif isinstance(f0, str) and f0.isdigit() and int(f0) < len(rv["ops"]):
                        idx = int(f0)
                    if idx is not None and idx < len(rv["ops"]):
                        push_op(rv["ops"][idx], fields[1:])
                        continue
                o = Origin("agg", body, s, agg, fields)
                out[o.key()] = o
            elif k == "discr":
                o = Origin("discr", body, s, rv["place"], fields)
                out[o.key()] = o
            elif k in ("binop", "unop"):
                o = Origin(k, body, s, rv, fields)
                out[o.key()] = o
            elif k == "repeat":
                push_op(rv["ops"][0], fields)
            else:
                o = Origin("unknown", body, s, rv, fields)
                out[o.key()] = o
    return list(out.values())


def _deps_engine(body, place_or_op, through_calls=True, max_steps=6000, stop_local=None):
    """field-sensitive (one level, through aggregates) backwards data-dependence closure.
    Returns (locals seen, call sites met, constants met, hit_stop_local)"""
    seen = set()
    seen_locals = set()
    calls = []
    consts = []
    work = []

    def push_place(p, extra=()):
        flds = tuple(place_fields(p)) + tuple(extra)
        work.append((p["l"], flds))
        for e in p["p"]:
            if isinstance(e, dict) and "idx" in e:
                work.append((e["idx"], ()))

    def push_op(op, extra=()):
        p = op_place(op)
        if p is not None:
            push_place(p, extra)
        elif op_const(op) is not None:
            consts.append(op_const(op))

    if "l" in place_or_op:
        push_place(place_or_op)
    else:
        push_op(place_or_op)
    steps = 0
    while work:
        steps += 1
        if steps > max_steps:
            return seen_locals, calls, consts, True
        l, fields = work.pop()
        if stop_local is not None and l == stop_local:
            return seen_locals, calls, consts, True
        if (l, fields) in seen:
            continue
        seen.add((l, fields))
        seen_locals.add(l)
        for s in body.defs.get(l, []):
            n = s.node
            if s.si is None:
                if s not in calls:
                    calls.append(s)
                if through_calls:
                    for a in n["args"]:
                        push_op(a)
                continue
            if n["k"] == "setdiscr":
                continue
            rv = n["rv"]
            if rv["k"] == "aggregate" and fields and rv["agg"]["kind"] in ("tuple", "adt", "closure"):
                f0 = fields[0]
                idx = None
                agg = rv["agg"]
                if agg["kind"] == "adt" and f0 in (agg.get("field_names") or []):
                    idx = agg["field_names"].index(f0)
                elif isinstance(f0, int):
                    idx = f0
                elif isinstance(f0, str) and f0.isdigit():
                    idx = int(f0)
                if idx is not None and idx < len(rv["ops"]):
                    push_op(rv["ops"][idx], fields[1:])
                    continue
            keep = fields if rv["k"] in ("use", "cast", "ref", "rawptr") else ()
            for o in rvalue_operands(rv):
                push_op(o, keep)
            if "place" in rv:
                push_place(rv["place"], keep)
        for s in body.ptr_store_defs.get(l, []):
            for o in rvalue_operands(s.node["rv"]):
                push_op(o)
        for s in body.mut_call_defs.get(l, []):
            if s not in calls:
                calls.append(s)
            if through_calls:
                for a in s.node["args"]:
                    pa = op_place(a)
                    if pa is not None and pa["l"] == l:
                        continue
                    push_op(a)
        for s in body.partial_defs.get(l, []):
            n = s.node
            if s.si is None:
                if s not in calls:
                    calls.append(s)
                if through_calls:
                    for a in n["args"]:
                        push_op(a)
                continue
            if n["k"] == "setdiscr":
                continue
            # a store into a projection of l: relevant when it may overlap the fields asked for
            dflds = tuple(place_fields(n["dst"]))
            if fields and dflds and dflds[0] != fields[0] and not (str(dflds[0]).isdigit() and str(fields[0]).isdigit() and int(dflds[0]) == int(fields[0])):
                continue
            rv = n["rv"]
            for o in rvalue_operands(rv):
                push_op(o)
            if "place" in rv:
                push_place(rv["place"])
    return seen_locals, calls, consts, False


def derives_from_local(body, place_or_op, target_local, through_calls=True, max_steps=6000):
    """may the value of place/operand depend (data dependence through assignments, call
    arguments -> results, binops) on `target_local`?  Flow-insensitive may-analysis."""
    return _deps_engine(body, place_or_op, through_calls, max_steps, stop_local=target_local)[3]


def data_deps(body, place_or_op, through_calls=True, max_steps=6000):
    """all locals the value may depend on + all call sites and constants met (flow-insensitive)"""
    a, b, c, _ = _deps_engine(body, place_or_op, through_calls, max_steps)
    return a, b, c


def self_fields_read(body, place_or_op, through_calls=True):
    """names of the fields of `self` (parameter 1) read in the backward dependence closure of a value"""
    seen, calls, _ = data_deps(body, place_or_op, through_calls)
    out = set()
    p0 = place_or_op if "l" in place_or_op else op_place(place_or_op)
    if p0 is not None and p0["l"] == 1 and place_fields(p0):
        out.add(str(place_fields(p0)[0]))
    for s in body.sites():
        n = s.node
        if s.si is not None and n["k"] == "assign" and n["dst"]["l"] in seen:
            rv = n["rv"]
            for p in [op_place(o) for o in rv.get("ops", [])] + [rv.get("place")]:
                if p is not None and p["l"] == 1 and place_fields(p):
                    out.add(str(place_fields(p)[0]))
    for s in calls:
        for a in s.node["args"]:
            p = op_place(a)
            if p is not None and p["l"] == 1 and place_fields(p):
                out.add(str(place_fields(p)[0]))
    return out


# ------------------------------------------------------------------------------------------
# branch conditions


def switch_sites(body):
    for i in sorted(body.reachable):
        t = body.blocks[i]["term"]
        if t["k"] == "switch":
            yield Site(body, i, None)


def controlling_switches(body, bb):
    """switch sites S such that bb is reachable from some but not all successors of S, and S
    dominates bb: returns list of (switch Site, set of successor blocks leading to bb)"""
    out = []
    for s in switch_sites(body):
        if s.bb == bb or s.bb not in body.dom.get(bb, ()):
            continue
        succs = body.succ[s.bb]
        lead = set()
        for x in succs:
            if x == bb or body.reaches(x, bb, avoid={s.bb}) or x == bb:
                lead.add(x)
        live = [x for x in succs if not body.is_unreachable_block(x)]
        if lead and any(x not in lead for x in live):
            out.append((s, lead))
    return out


def switch_edge_values(term, target_bb):
    """values of the discriminant on the edges going to target_bb; 'otherwise' for the default"""
    vals = [v for v, bb in term["targets"] if bb == target_bb]
    if term["otherwise"] == target_bb:
        vals.append("otherwise")
    return vals
