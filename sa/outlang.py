"""Regular over-approximation of what a function writes to a sink (a `dyn Write` parameter or a
String under construction), extracted from MIR.

The CFG of the function, multiplied by the values of its *state cells*, becomes an automaton whose
edges carry what the block's call emits to the sink; the automaton is turned into a regular
expression by state elimination.

  emissions    format templates (`write!`), `write_all` / `push_str` contents, pushed characters,
               the language of local helpers the sink is handed to, and - for a closure run once
               per element by for_each / try_for_each - the iterated language of the closure
  state cells  bool variables assigned constants (`let mut first = true; .. first = false`),
               also when captured by reference in a per-element closure; bool parameters of helpers
               (their value is evaluated at the call); and, for `for (i, x) in it.enumerate()`,
               whether the loop is in its first iteration (`i == 0`)
  switches     on a state cell follow the cell; every other branch is taken both ways; a branch on a
               bool that is not a state cell is recorded as *imprecise* (see `imprecise()`)
  not outputs  the error exits of `?`

A displayed label / argument is the single symbol LABEL (U+0001), an integer is [0-9]+.
`Undecided` is raised for anything the model does not cover; callers treat it as "not decided
here", never as a violation."""
import re

from .core import callee_of, callee_decl, callee_matches, op_place, op_const, origins, place_fields
from .fmtq import format_sites
from . import tags

LABEL = "\\x01"
DIGITS = "[0-9]+"
SIGNED = "-?[0-9]+"  # Display of a signed integer / of a sat::Literal (its Display prints the isize; checked by clause-store)


class Undecided(Exception):
    pass


# ---- regex algebra on strings (None = empty language, "" = the empty word)


def lit(s):
    out = []
    for ch in s:
        if ch == "\n":
            out.append("\\n")
        elif ch == "\t":
            out.append("\\t")
        elif ch == " ":
            out.append(" ")
        elif re.match(r"[A-Za-z0-9,_]", ch):
            out.append(ch)
        else:
            out.append("\\x{%x}" % ord(ch))
    return "".join(out)


def _has_top_alt(r):
    depth = 0
    i = 0
    while i < len(r):
        ch = r[i]
        if ch == "\\":
            i += 2
            continue
        if ch == "(" or ch == "[":
            depth += 1
        elif ch == ")" or ch == "]":
            depth -= 1
        elif ch == "|" and depth == 0:
            return True
        i += 1
    return False


def cat(a, b):
    if a is None or b is None:
        return None
    if a == "":
        return b
    if b == "":
        return a
    if _has_top_alt(a):
        a = "(?:%s)" % a
    if _has_top_alt(b):
        b = "(?:%s)" % b
    return a + b


def alt(a, b):
    if a is None:
        return b
    if b is None:
        return a
    if a == b:
        return a
    if a == "":
        return b if _nullable_group(b) else "(?:%s)?" % b
    if b == "":
        return a if _nullable_group(a) else "(?:%s)?" % a
    return "%s|%s" % (a, b)


def _nullable_group(r):
    """is r one group `(?:..)` followed by `*` or `?`"""
    if not (r.startswith("(?:") and (r.endswith(")*") or r.endswith(")?"))):
        return False
    depth = 0
    i = 0
    while i < len(r) - 1:
        ch = r[i]
        if ch == "\\":
            i += 2
            continue
        if ch == "(":
            depth += 1
        elif ch == ")":
            depth -= 1
            if depth == 0:
                return i == len(r) - 2
        i += 1
    return False


def star(a):
    if a is None or a == "":
        return ""
    return "(?:%s)*" % a


def eliminate(R, nodes, keep):
    """state elimination: R {(a, b): regex}; removes every node of `nodes` not in `keep`"""

    def add(a, b, r):
        if r is not None:
            R[(a, b)] = alt(R.get((a, b)), r)

    inter = [q for q in nodes if q not in keep]
    deg = {}
    for (a, b) in R:
        deg[a] = deg.get(a, 0) + 1
        deg[b] = deg.get(b, 0) + 1
    for q in sorted(inter, key=lambda x: (deg.get(x, 0), str(x))):
        loop = R.pop((q, q), None)
        ins = [(a, r) for (a, b), r in R.items() if b == q]
        outs = [(b, r) for (a, b), r in R.items() if a == q]
        for a, _ in ins:
            R.pop((a, q), None)
        for b, _ in outs:
            R.pop((q, b), None)
        mid = star(loop) if loop is not None else ""
        for a, ra in ins:
            for b, rb in outs:
                add(a, b, cat(cat(ra, mid), rb))
    return R


# ---- sinks


_REF_T = (
    "core::ops::deref::Deref::deref",
    "core::ops::deref::DerefMut::deref_mut",
    "core::borrow::BorrowMut::borrow_mut",
    "core::convert::AsMut::as_mut",
    "core::hint::must_use",
)


def _matches(prog, body, op, sink):
    kind, key = sink
    for o in origins(body, op, transparent=_REF_T):
        if kind == "param" and o.kind == "param" and o.data == key and not o.fields:
            return True
        if kind == "upvar" and o.kind == "upvar" and o.data == key:
            return True
        if kind == "local" and o.kind == "call" and o.site is not None and (o.site.bb, o.site.si) == (key.bb, key.si) and o.site.body is key.body:
            return True
        if kind == "field":
            # a field of self: `(*_1).name`, a capture of self projected to it, or a disjoint capture `*self.name`
            if o.kind == "param" and o.data == 1 and o.fields and str(o.fields[0]) == key:
                return True
            if o.kind == "upvar" and ((o.fields and str(o.fields[0]) == key) or re.search(r"self\.%s$" % re.escape(key), body.upvar_name(o.data) or "")):
                return True
    return False


def _ph(k, fld=""):
    """placeholder for the text of parameter k (or of its field `fld`): substituted at the call sites of the helper"""
    return "\x02%d:%s\x03" % (k, fld)


_PH_RE = re.compile("\x02(\\d+):([A-Za-z0-9_]*)\x03")


def _sfilter(val):
    """restrict multiply-assigned string locals to the assignment the explored path took (cells ('S', local))"""
    if not val:
        return None

    def f(l, ds):
        k = val.get(("S", l))
        if k is None:
            return ds
        keep = [d for d in ds if (d.bb, d.si) == k]
        return keep or ds

    return f


def _param_placeholders(body, op, val=None):
    """the operand is (a field of) a parameter of a plain function on every origin: the placeholders, else None"""
    if body.kind == "closure":
        return None
    os_ = origins(body, op, transparent=_REF_T, def_filter=_sfilter(val))
    if not os_ or not all(o.kind == "param" and len(o.fields) <= 1 for o in os_):
        return None
    r = None
    for o in sorted(os_, key=lambda o: (o.data, tuple(str(f) for f in o.fields))):
        r = alt(r, _ph(o.data, str(o.fields[0]) if o.fields else ""))
    return r


def _template_regex(prog, body, fs, val=None):
    out = ""
    for p in fs.pieces:
        if p[0] == "lit":
            out = cat(out, lit(p[1]))
        else:
            a = fs.args[p[1]] if p[1] < len(fs.args) else None
            if a is None:
                raise Undecided("format argument not resolved at %s" % fs.site.loc())
            out = cat(out, _display_regex(prog, body, a[1], fs.site, val))
    return out


def _display_regex(prog, body, op, site, val=None):
    """what Display prints for the operand"""
    k = op_const(op)
    if k is not None and "str" in k:
        return lit(k["str"])
    p = op_place(op)
    if p is None:
        raise Undecided("displayed operand at %s" % site.loc())
    os_ = origins(body, op, transparent=_REF_T, def_filter=_sfilter(val))
    ty0 = body.local_ty(p["l"])
    for e in p["p"]:
        if isinstance(e, dict) and "ty" in e:
            ty0 = e["ty"]
    t0 = ty0.replace("&", "").replace("mut ", "").strip()
    if t0.startswith("core::fmt::Arguments"):
        fs2 = _format_site_for(body, op)
        if fs2 is not None:
            return _template_regex(prog, body, fs2, val)
    if t0 == "str" or t0.startswith("core::fmt::Arguments"):
        ph = _param_placeholders(body, op, val)
        if ph is not None:
            return ph
    consts = [o for o in os_ if o.kind == "const" and "str" in o.data]
    others = [o for o in os_ if not (o.kind == "const" and "str" in o.data)]
    if consts and not others:
        r = None
        for o in consts:
            r = alt(r, lit(o.data["str"]))
        return r
    ty = body.local_ty(p["l"])
    for e in p["p"]:
        if isinstance(e, dict) and "ty" in e:
            ty = e["ty"]
    t = ty.replace("&", "").replace("mut ", "").strip()
    if re.match(r"^utils::label::Label<", t) or t in ("T",):
        return LABEL
    if t in ("usize", "u32", "u64"):
        return DIGITS
    if t in ("isize", "i32", "i64", "sat::sat_solver::Literal"):
        return SIGNED
    if t in ("alloc::string::String", "str"):
        return string_lang(prog, body, op, site)
    raise Undecided("Display of %s at %s" % (t, site.loc()))


def _format_site_for(body, op):
    """the FormatSite whose fmt::Arguments value the operand holds"""
    for o in origins(body, op, transparent=()):
        if o.kind == "call" and o.site is not None:
            for fs in format_sites(body):
                if (fs.site.bb, fs.site.si) == (o.site.bb, o.site.si):
                    return fs
    return None


_STR_T = (
    "alloc::string::String::as_bytes",
    "alloc::string::String::as_str",
    "core::str::as_bytes",
    "core::ops::deref::Deref::deref",
    "core::convert::AsRef::as_ref",
    "core::borrow::Borrow::borrow",
    "core::clone::Clone::clone",
    "alloc::borrow::ToOwned::to_owned",
    "core::hint::must_use",
)
_NEW_STRING = ("core::convert::From::from", "alloc::string::String::new", "alloc::string::String::with_capacity", "core::convert::Into::into")


def string_lang(prog, body, op, at_site, depth=0):
    """regular language of the string / byte-string value of an operand at `at_site`"""
    if depth > 6:
        raise Undecided("string depth")
    k = op_const(op)
    if k is not None:
        if "str" in k:
            return lit(k["str"])
        if "bytes" in k:
            return lit(k["bytes"])
        raise Undecided("non-string constant")
    res = None
    for o in origins(body, op, transparent=_STR_T):
        if o.kind == "const" and ("str" in o.data or "bytes" in o.data):
            res = alt(res, lit(o.data.get("str", o.data.get("bytes"))))
        elif o.kind == "call":
            d = callee_decl(o.data)
            a = o.site.node["args"]
            if d == "alloc::string::ToString::to_string":
                res = alt(res, _display_regex(prog, body, a[0], o.site))
            elif callee_matches(o.data, r"utils::label::Label::label$"):
                res = alt(res, LABEL)
            elif d in ("alloc::fmt::format", "alloc::fmt::format::format_inner"):
                fs = _format_site_for(body, a[0])
                if fs is None:
                    raise Undecided("format! template at %s" % o.site.loc())
                res = alt(res, _template_regex(prog, body, fs))
            elif re.search(r"(^|::)join$", d) and len(a) == 2:
                e = elements_lang(prog, body, a[0], o.site, depth + 1)
                s = string_lang(prog, body, a[1], o.site, depth + 1)
                res = alt(res, alt("", cat(e, star(cat(s, e)))))
            elif d == "core::iter::traits::iterator::Iterator::fold" and len(a) == 3:
                # `iter.fold(String::new(), |mut acc, x| { acc.push_str(&x); acc })`
                init = string_lang(prog, body, a[1], o.site, depth + 1) if op_const(a[1]) is not None or op_place(a[1]) is not None else ""
                clos = [prog.by_target[body.target].get(x) for x in (o.data.get("fn_args") or [])]
                clos = [x for x in clos if x is not None and x.kind == "closure"]
                if len(clos) != 1:
                    raise Undecided("fold without a closure body at %s" % o.site.loc())
                step = sink_language(prog, clos[0], ("param", 2), depth=depth + 1)
                res = alt(res, cat(init, star(step)))
            elif d in ("alloc::string::String::new", "alloc::string::String::with_capacity") and False:
                pass
            elif re.search(r"(^|::)concat$", d) and len(a) == 1:
                res = alt(res, star(elements_lang(prog, body, a[0], o.site, depth + 1)))
            elif d in _NEW_STRING and "String" in body.local_ty(o.site.node["dst"]["l"]):
                # a String built in this body: its content at the use site
                res = alt(res, sink_language(prog, body, ("local", o.site), end_bb=at_site.bb, depth=depth + 1))
            else:
                tgt = prog.body_for_callee(o.data, body) if o.data.get("decl") != "<indirect>" else None
                if tgt is not None and tgt.ret_ty == "alloc::string::String":
                    res = alt(res, returned_string_lang(prog, tgt, depth + 1))
                else:
                    raise Undecided("string from %s at %s" % (d, o.site.loc()))
        elif o.kind in ("undef", "partial"):
            continue
        elif o.kind == "param" and body.kind == "closure" and o.data >= 2:
            # element parameter of a closure: what the iterated collection holds
            par = prog.by_target[body.target].get(body.parent["direct"]) if body.parent else None
            got = None
            if par is not None:
                for ps in par.calls():
                    pc = callee_of(ps)
                    if pc and body.path in (pc.get("fn_args") or []):
                        got = alt(got, elements_lang(prog, par, ps.node["args"][0], ps, depth + 1))
            if got is None:
                raise Undecided("closure parameter string")
            res = alt(res, got)
        else:
            raise Undecided("string origin %s" % o.kind)
    if res is None:
        raise Undecided("string value without origin at %s" % at_site.loc())
    return res


def elements_lang(prog, body, op, at_site, depth=0):
    """language of one element of a collection / iterator of strings"""
    if depth > 6:
        raise Undecided("elements depth")
    res = None
    for o in origins(body, op, transparent=tags.ELEMENT_PRESERVING + tuple(x for x in tags.FILTERING if not x.endswith("filter_map"))):
        if o.kind == "call":
            d = callee_decl(o.data)
            if d in tags.MAPPING:
                clos = [prog.by_target[body.target].get(x) for x in (o.data.get("fn_args") or [])]
                clos = [x for x in clos if x is not None]
                if not clos:
                    raise Undecided("map without a closure body at %s" % o.site.loc())
                for clo in clos:
                    res = alt(res, string_lang(prog, clo, {"c": {"l": 0, "p": []}}, o.site, depth + 1))
            else:
                raise Undecided("elements from %s at %s" % (d, o.site.loc()))
        elif o.kind in ("undef", "partial"):
            continue
        else:
            raise Undecided("elements origin %s" % o.kind)
    if res is None:
        raise Undecided("elements without origin at %s" % at_site.loc())
    return res


def returned_string_lang(prog, fn, depth=0):
    res = None
    for o in origins(fn, {"l": 0, "p": []}, transparent=()):
        if o.kind == "call" and "String" in fn.local_ty(o.site.node["dst"]["l"]):
            d = callee_decl(o.data)
            if d in _NEW_STRING:
                res = alt(res, sink_language(prog, fn, ("local", o.site), depth=depth + 1))
                continue
            res = alt(res, string_lang(prog, fn, {"c": {"l": o.site.node["dst"]["l"], "p": []}}, o.site, depth + 1))
            continue
        raise Undecided("returned string of %s" % fn.path)
    if res is None:
        raise Undecided("returned string of %s" % fn.path)
    return res


# ---- state cells


def _ref_root(body, local, limit=6):
    """the local a chain of `&` / `&mut` temporaries points to"""
    for _ in range(limit):
        ds = body.defs.get(local, [])
        if len(ds) == 1 and ds[0].si is not None and ds[0].node["k"] == "assign" and ds[0].node["rv"]["k"] in ("ref", "rawptr"):
            pl = ds[0].node["rv"]["place"]
            if pl["p"] == ["*"] or not pl["p"]:
                local = pl["l"]
                continue
        return local
    return local


class Cells:
    def __init__(self, prog, body):
        self.body = body
        self.bools = set()
        for l in range(1, len(body.locals)):
            if body.local_ty(l) != "bool":
                continue
            if 1 <= l <= body.n_args and not (body.kind == "closure" and l == 1):
                self.bools.add(l)
            elif body.local_name(l) is not None:
                self.bools.add(l)
        self.upvars = {u["field"] for u in body.upvars if u.get("by_ref") and u.get("ty") == "bool"} if body.kind == "closure" else set()
        self.enums = {l for l in range(1, len(body.locals)) if body.local_ty(l).startswith("core::iter::adapters::enumerate::Enumerate<")}
        # string references assigned on several paths (`let sep = if first { a } else { b }`): the path decides which
        self.strs = {l for l in range(1, len(body.locals)) if body.local_ty(l).replace("&", "").strip() == "str" and len([d for d in body.defs.get(l, []) if d.si is not None]) > 1}

    def enum_index_state(self, op, val):
        """'first' / 'later' / None for an operand holding the index produced by an enumerate() iterator's next()"""
        for o in origins(self.body, op, transparent=()):
            if o.kind == "call" and o.site is not None and [str(f) for f in o.fields][-2:] == ["0", "0"]:
                e = self.enum_of_next(o.site)
                if e is not None:
                    return val.get(("E", e), "init")
        return None

    def upvar_of_place(self, p):
        """field of the by-ref bool upvar a place `(*tmp)` denotes"""
        if p is None or p["p"] != ["*"]:
            return None
        for o in origins(self.body, {"l": p["l"], "p": []}, transparent=()):
            if o.kind == "upvar" and o.data in self.upvars and not o.fields:
                return o.data
        return None

    def enum_of_next(self, site):
        c = callee_of(site)
        if c is None or callee_decl(c) != "core::iter::traits::iterator::Iterator::next" or not site.node["args"]:
            return None
        p = op_place(site.node["args"][0])
        if p is None:
            return None
        root = _ref_root(self.body, p["l"])
        return root if root in self.enums else None


def _neg(v):
    return {"T": "F", "F": "T"}.get(v, "U")


def cellexpr(cells, op, val, depth=0):
    """'T' / 'F' / 'U' value of a bool operand under the valuation"""
    body = cells.body
    if depth > 6:
        return "U"
    k = op_const(op)
    if k is not None:
        return ("T" if k["bool"] else "F") if "bool" in k else "U"
    p = op_place(op)
    if p is None:
        return "U"
    if p["p"]:
        f = cells.upvar_of_place(p)
        return val.get(("U", f), "U") if f is not None else "U"
    l = p["l"]
    if l in cells.bools:
        return val.get(("L", l), "U")
    ds = body.defs.get(l, [])
    if len(ds) != 1 or ds[0].si is None or ds[0].node["k"] != "assign":
        return "U"
    rv = ds[0].node["rv"]
    if rv["k"] == "use":
        return cellexpr(cells, rv["ops"][0], val, depth + 1)
    if rv["k"] == "unop" and rv["op"] == "Not":
        return _neg(cellexpr(cells, rv["ops"][0], val, depth + 1))
    if rv["k"] == "binop" and rv["op"] in ("Eq", "Ne"):
        a, b = rv["ops"]
        ka, kb = op_const(a), op_const(b)
        other = a if (kb is not None and kb.get("int") == 0) else (b if (ka is not None and ka.get("int") == 0) else None)
        if other is not None:
            for o in origins(body, other, transparent=()):
                if o.kind == "call" and o.site is not None and [str(f) for f in o.fields][-2:] == ["0", "0"]:
                    e = cells.enum_of_next(o.site)
                    if e is not None:
                        st = val.get(("E", e), "init")
                        v = {"first": "T", "later": "F"}.get(st, "U")
                        return v if rv["op"] == "Eq" else _neg(v)
    return "U"


def _freeze(val):
    return tuple(sorted(val.items()))


_imprecise = set()


def _element_data_only(prog, body, discr):
    """the condition is a function of the value of the iterated element alone (no flag, counter, position or
    unknown): both outcomes are then possible at every position, and the two branches are not an artefact of the extraction"""
    from . import prov as pv

    try:
        es = pv.prov(prog, body, discr)
    except Exception:
        return False
    if not es:
        return False
    for e in es:
        subs = pv.subterms(e)
        if not any(x[0] == "elem" for x in subs if isinstance(x, tuple)):
            return False
        for x in subs:
            if not isinstance(x, tuple):
                continue
            if x[0] in ("var", "?"):
                return False
            if x[0] == "param" and not any(y[0] == "elem" and x in pv.subterms(y) for y in subs if isinstance(y, tuple)):
                return False
            if x[0] == "field" and x[2] == "0" and isinstance(x[1], tuple) and x[1][0] == "elem" and "enumerate" in repr(x[1][1]):
                return False
            if x[0] == "call" and not any(y[0] == "elem" for a in x[2] for y in pv.subterms(a) if isinstance(y, tuple)) and x[2]:
                return False
    return True


def imprecise():
    """(function path, line) of branches on a bool that is not a state cell, met during the extractions since clear_cache()"""
    return sorted(_imprecise)


# ---- emissions of one call


def _emission(prog, body, cells, s, sink, val, depth):
    """[(regex emitted to the sink by the call site s, valuation after the call)]"""
    c = callee_of(s)
    n = s.node
    args = n.get("args") or []
    d = callee_decl(c) if c else "<indirect>"
    # creation of a local String sink
    if sink[0] == "local" and sink[1].body is body and (s.bb, s.si) == (sink[1].bb, sink[1].si):
        if d in ("alloc::string::String::new", "alloc::string::String::with_capacity"):
            return [("", val)]
        return [(string_lang(prog, body, args[0], s, depth + 1), val)]
    # closures capturing the sink, run per element
    if c and d in ("core::iter::traits::iterator::Iterator::for_each", "core::iter::traits::iterator::Iterator::try_for_each"):
        for fa in c.get("fn_args") or []:
            clo = prog.by_target[body.target].get(fa)
            if clo is None or clo.kind != "closure":
                continue
            sink_f = None
            cmap = {}
            for u in clo.upvars:
                par, cop = tags._closure_capture_operand(prog, clo, u["field"])
                if par is not body or cop is None:
                    continue
                if _matches(prog, body, cop, sink):
                    sink_f = u["field"]
                    sink_kind = "upvar"
                elif u.get("by_ref") and u.get("ty") == "bool":
                    q = op_place(cop)
                    if q is not None:
                        root = _ref_root(body, q["l"])
                        if root in cells.bools:
                            cmap[u["field"]] = root
            if sink_f is None:
                continue
            return _closure_star(prog, body, clo, sink_f, cmap, val, depth)
        return [("", val)]
    hit = [i for i, a in enumerate(args) if op_place(a) is not None and _matches(prog, body, a, sink)]
    if not hit:
        return [("", val)]
    if d in ("std::io::Write::write_fmt", "core::fmt::Write::write_fmt") and hit == [0]:
        fs = _format_site_for(body, args[1])
        if fs is None:
            raise Undecided("template of write_fmt at %s" % s.loc())
        return [(_template_regex(prog, body, fs, val), val)]
    if d in ("std::io::Write::write_all", "alloc::string::String::push_str", "core::fmt::Write::write_str") and hit == [0]:
        return [(string_lang(prog, body, args[1], s, depth + 1), val)]
    if d == "alloc::string::String::push" and hit == [0]:
        k = op_const(args[1])
        if k is None or "int" not in k:
            raise Undecided("pushed character at %s" % s.loc())
        return [(lit(chr(k["int"])), val)]
    if d in ("std::io::Write::flush", "alloc::string::String::reserve", "alloc::string::String::len", "alloc::string::String::is_empty", "alloc::string::String::capacity", "alloc::string::String::shrink_to_fit") or d in _REF_T or d in _STR_T:
        return [("", val)]
    tgt = prog.body_for_callee(c, body) if c and c.get("decl") != "<indirect>" else None
    if tgt is not None and tgt.kind != "closure" and len(hit) == 1:
        tcells = Cells(prog, tgt)
        init = {}
        for k2 in range(1, tgt.n_args + 1):
            if k2 in tcells.bools and k2 - 1 < len(args):
                init[("L", k2)] = cellexpr(cells, args[k2 - 1], val)
            elif k2 - 1 < len(args) and op_place(args[k2 - 1]) is not None:
                # a collection whose length is fixed at the call: `slice::from_ref(x)` (1), `&[a, b, ..]` (n)
                for o in origins(body, args[k2 - 1], transparent=_REF_T):
                    if o.kind == "call" and callee_decl(o.data) in ("core::slice::from_ref", "core::slice::raw::from_ref", "core::array::from_ref"):
                        init[("LEN", k2)] = 1
                    elif o.kind == "agg" and o.data.get("kind") == "array":
                        init[("LEN", k2)] = len(o.site.node["rv"]["ops"])
        m = sink_matrix(prog, tgt, ("param", hit[0] + 1), init, depth=depth + 1)
        r = None
        for _, rr in sorted(m.items()):
            r = alt(r, rr)
        return [(_subst_placeholders(prog, body, s, tgt, r, val), val)]
    raise Undecided("sink handed to %s at %s" % (d, s.loc()))


def _const_item_field(prog, body, item, fld):
    c = prog.consts.get((body.target, item)) or prog.consts.get(("lib", item))
    if c is None:
        return None
    for i, f in enumerate(c.get("fields") or []):
        if f.get("name") == fld or str(i) == fld:
            return f.get("str")
    return None


def _subst_placeholders(prog, body, s, tgt, r, val):
    """replace the parameter placeholders of a helper's language by what this call site hands over"""
    if r is None or "\x02" not in r:
        return r
    args = s.node.get("args") or []

    def repl(m):
        k, fld = int(m.group(1)), m.group(2)
        if k - 1 >= len(args):
            raise Undecided("placeholder argument at %s" % s.loc())
        a = args[k - 1]
        if not fld:
            return "(?:%s)" % _display_regex(prog, body, a, s, val)
        # a field of a struct handed over by reference: a constant item, or a parameter of this function in turn
        res = None
        for o in origins(body, a, transparent=_REF_T, def_filter=_sfilter(val)):
            if o.kind == "const" and o.data.get("item"):
                v = _const_item_field(prog, body, o.data["item"], fld)
                if v is None:
                    raise Undecided("field %s of constant %s" % (fld, o.data["item"]))
                res = alt(res, lit(v))
            elif o.kind == "param" and not o.fields and body.kind != "closure":
                res = alt(res, _ph(o.data, fld))
            else:
                raise Undecided("struct argument of %s at %s" % (tgt.path, s.loc()))
        if res is None:
            raise Undecided("struct argument of %s at %s" % (tgt.path, s.loc()))
        return "(?:%s)" % res

    return _PH_RE.sub(repl, r)


def _closure_star(prog, body, clo, sink_f, cmap, val, depth):
    """the closure runs any number of times; its by-reference bool captures keep their value between runs"""
    u0 = {("U", f): val.get(("L", l), "U") for f, l in cmap.items()}
    nodes = {}
    R = {}
    work = [u0]
    while work:
        u = work.pop()
        ku = _freeze(u)
        if ku in nodes:
            continue
        nodes[ku] = u
        if len(nodes) > 64:
            raise Undecided("too many closure states")
        m = sink_matrix(prog, clo, ("upvar", sink_f), u, depth=depth + 1)
        for kout, r in m.items():
            R[(ku, kout)] = alt(R.get((ku, kout)), r)
            work.append(dict(kout))
    out = []
    k0 = _freeze(u0)
    for kf in nodes:
        # language of >= 0 runs leading from k0 to kf
        R2 = dict(R)
        S, F = ("S",), ("F",)
        R2[(S, k0)] = ""
        R2[(kf, F)] = ""
        R2 = eliminate(R2, list(nodes), keep={S, F})
        r = R2.get((S, F))
        if r is None:
            continue
        v2 = dict(val)
        for (tag, f), x in kf:
            if f in cmap:
                v2[("L", cmap[f])] = x
        out.append((r, v2))
    return out


def _error_edges(body):
    """(block, successor) edges taken only when a `?` propagates an error"""
    from .core import switch_sites

    out = set()
    for sw in switch_sites(body):
        for o in origins(body, sw.node["discr"], transparent=()):
            if o.kind == "discr":
                for oo in origins(body, o.data, transparent=()):
                    if oo.kind == "call" and callee_decl(oo.data) == "core::ops::try_trait::Try::branch":
                        for v, tb in sw.node["targets"]:
                            if v == "1":
                                out.add((sw.bb, tb))
    return out


_cache = {}


def sink_matrix(prog, body, sink, init=None, end_bb=None, depth=0):
    """{final valuation of the by-reference captures: regex of the emissions to `sink`} along the
    paths from the entry of `body` (state cells as in `init`) to a normal return (or to `end_bb`)"""
    if depth > 6:
        raise Undecided("inlining depth")
    init = dict(init or {})
    key = (body.id, sink[0], sink[1] if sink[0] != "local" else (sink[1].bb, sink[1].si), end_bb, _freeze(init))
    if key in _cache:
        if _cache[key] == "...":
            raise Undecided("recursion")
        return _cache[key]
    _cache[key] = "..."
    try:
        cells = Cells(prog, body)
        err = _error_edges(body)
        calls = {s.bb: s for s in body.calls()}
        START = ("S",)
        R = {}
        nodes = {}
        finals = set()

        def add(a, b, r):
            if r is not None:
                R[(a, b)] = alt(R.get((a, b)), r)

        first = (0, _freeze(init))
        add(START, first, "")
        work = [first]
        while work:
            node = work.pop()
            if node in nodes:
                continue
            nodes[node] = True
            if len(nodes) > 4000:
                raise Undecided("product automaton too large")
            bb, kv = node
            val = dict(kv)
            if end_bb is not None and bb == end_bb:
                fin = ("F", _freeze({k: v for k, v in val.items() if k[0] == "U"}))
                finals.add(fin)
                add(node, fin, "")
                continue
            # statements
            for si_, st in enumerate(body.blocks[bb]["stmts"]):
                if st["k"] != "assign":
                    continue
                dst = st["dst"]
                if not dst["p"] and dst["l"] in cells.strs:
                    val[("S", dst["l"])] = (bb, si_)
                if not dst["p"] and st["rv"]["k"] == "use":
                    q = op_place(st["rv"]["ops"][0])
                    if q is not None and not q["p"] and ("IT", q["l"]) in val:
                        val[("IT", dst["l"])] = val[("IT", q["l"])]
                if not dst["p"] and dst["l"] in cells.bools:
                    val[("L", dst["l"])] = cellexpr(cells, st["rv"]["ops"][0], val) if st["rv"]["k"] == "use" else "U"
                elif dst["p"] == ["*"]:
                    f = cells.upvar_of_place(dst)
                    if f is not None:
                        val[("U", f)] = cellexpr(cells, st["rv"]["ops"][0], val) if st["rv"]["k"] == "use" else "U"
            t = body.blocks[bb]["term"]
            if t["k"] == "return":
                fin = ("F", _freeze({k: v for k, v in val.items() if k[0] == "U"}))
                finals.add(fin)
                add(node, fin, "")
                continue
            outs = [("", val)]
            if bb in calls:
                s = calls[bb]
                outs = _emission(prog, body, cells, s, sink, val, depth)
                e = cells.enum_of_next(s)
                if e is not None:
                    outs2 = []
                    for r, v in outs:
                        v = dict(v)
                        v[("E", e)] = {"init": "first"}.get(v.get(("E", e), "init"), "later")
                        outs2.append((r, v))
                    outs = outs2
                # iterators over a collection whose length the caller fixed (`slice::from_ref(x)`, `&[a, b]`): exact counts
                d0 = callee_decl(callee_of(s)) if callee_of(s) else ""
                if d0 in ("core::iter::traits::collect::IntoIterator::into_iter", "core::slice::iter", "core::iter::traits::iterator::Iterator::enumerate", "core::iter::traits::iterator::Iterator::by_ref") and s.node["args"]:
                    n0 = None
                    for o in origins(body, s.node["args"][0], transparent=_REF_T):
                        if o.kind == "param" and not o.fields and ("LEN", o.data) in val:
                            n0 = val[("LEN", o.data)]
                    a0 = op_place(s.node["args"][0])
                    if n0 is None and a0 is not None and not a0["p"] and ("IT", _ref_root(body, a0["l"])) in val:
                        n0 = val[("IT", _ref_root(body, a0["l"]))]
                    if n0 is not None:
                        outs = [(r, dict(v, **{})) for r, v in outs]
                        for _, v in outs:
                            v[("IT", s.node["dst"]["l"])] = n0
                if d0 == "core::iter::traits::iterator::Iterator::next" and s.node["args"]:
                    a0 = op_place(s.node["args"][0])
                    root = _ref_root(body, a0["l"]) if a0 is not None else None
                    if root is not None and ("IT", root) in val:
                        outs2 = []
                        for r, v in outs:
                            v = dict(v)
                            left = v[("IT", root)]
                            if left > 0:
                                v[("IT", root)] = left - 1
                                v[("NX", s.node["dst"]["l"])] = "S"
                            else:
                                v[("NX", s.node["dst"]["l"])] = "N"
                            outs2.append((r, v))
                        outs = outs2
            succs = [sc for sc in body.succ[bb] if (bb, sc) not in err and sc in body.reachable]
            if t["k"] == "switch":
                p = op_place(t["discr"])
                known = None
                if p is not None and not p["p"]:
                    ds = body.defs.get(p["l"], [])
                    if len(ds) == 1 and ds[0].si is not None and ds[0].node["k"] == "assign" and ds[0].node["rv"]["k"] == "discr":
                        q = ds[0].node["rv"]["place"]
                        if not q["p"] and ("NX", q["l"]) in val:
                            known = val[("NX", q["l"])]
                if known is not None:
                    tgt = [tb for x, tb in t["targets"] if x == ("1" if known == "S" else "0")]
                    if tgt:
                        succs = [sc for sc in succs if sc in tgt]
                elif p is not None and not p["p"] and body.local_ty(p["l"]) == "usize" and cells.enums and cells.enum_index_state(t["discr"], val) in ("first", "later"):
                    # `match i { 0 => .., _ => .. }` on the index of an enumerate() iterator
                    stt = cells.enum_index_state(t["discr"], val)
                    zero = [tb for x, tb in t["targets"] if x == "0"]
                    if stt == "first":
                        succs = [sc for sc in succs if sc in (zero or [t["otherwise"]])]
                    elif zero:
                        succs = [sc for sc in succs if sc not in zero or sc == t["otherwise"]]
                elif p is not None and not p["p"] and body.local_ty(p["l"]) == "bool":
                    v = cellexpr(cells, t["discr"], val)
                    zero = [tb for x, tb in t["targets"] if x == "0"]
                    one = [tb for x, tb in t["targets"] if x == "1"]
                    if v == "T":
                        succs = one or [t["otherwise"]]
                    elif v == "F" and zero:
                        succs = zero
                    elif not _element_data_only(prog, body, t["discr"]):
                        _imprecise.add((body.path, body.blocks[bb]["term"].get("line")))
            for r, v2 in outs:
                for sc in succs:
                    nxt = (sc, _freeze(v2))
                    add(node, nxt, r)
                    work.append(nxt)
        if not finals:
            raise Undecided("no normal return in %s" % body.path)
        R = eliminate(R, list(nodes), keep={START} | finals)
        res = {}
        for fin in finals:
            r = R.get((START, fin))
            if r is not None:
                res[fin[1]] = r
        if not res:
            raise Undecided("no path to a normal return in %s" % body.path)
        _cache[key] = res
        return res
    except Undecided:
        _cache.pop(key, None)
        raise


def sink_language(prog, body, sink, end_bb=None, depth=0, init=None):
    m = sink_matrix(prog, body, sink, init, end_bb=end_bb, depth=depth)
    r = None
    for _, rr in sorted(m.items()):
        r = alt(r, rr)
    if depth == 0 and r is not None and "\x02" in r:
        raise Undecided("the text written by %s depends on what its callers hand over" % body.path)
    return r


def clear_cache():
    _cache.clear()
    _imprecise.clear()
