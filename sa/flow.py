"""Shared flow analyses: result consumption (F3), return-shape summaries (F5), mutable-use
census (F1), must-pass-through (F2), guards (F4)."""
from .core import (
    Site,
    callee_of,
    callee_is,
    callee_name,
    strip_generics,
    op_place,
    op_const,
    rvalue_operands,
    origins,
    PANIC_FNS,
)


# ------------------------------------------------------------------------------------------
# drop-elaboration artefacts


def _is_bool_const_assign(stmt):
    if stmt["k"] != "assign":
        return False
    rv = stmt["rv"]
    if rv["k"] != "use":
        return False
    k = op_const(rv["ops"][0])
    return k is not None and k.get("ty") == "bool" and not stmt["dst"]["p"]


def drop_flag_locals(body):
    """bool locals without a source name that are only ever assigned constants: drop flags"""
    cands = set()
    for l, d in enumerate(body.locals):
        if d["ty"] == "bool" and body.local_name(l) is None and l > body.n_args:
            ds = body.defs.get(l, [])
            if ds and all(s.si is not None and _is_bool_const_assign(s.node) for s in ds):
                cands.add(l)
    return cands


def is_drop_glue_region(body, start_blocks, limit=40):
    """do the blocks reachable from `start_blocks` consist only of drops / gotos / drop-flag
    updates / switches on drop flags or discriminants until they reach a return or rejoin?"""
    flags = drop_flag_locals(body)
    seen = set()
    st = list(start_blocks)
    steps = 0
    while st:
        x = st.pop()
        if x in seen:
            continue
        seen.add(x)
        steps += 1
        if steps > limit:
            return False
        blk = body.blocks[x]
        for s in blk["stmts"]:
            if _is_bool_const_assign(s) and s["dst"]["l"] in flags:
                continue
            if s["k"] == "assign" and s["rv"]["k"] == "discr":
                continue
            if s["k"] == "assign" and s["rv"]["k"] == "use" and s["rv"]["ops"] and op_place(s["rv"]["ops"][0]) is not None and "m" in s["rv"]["ops"][0]:
                # moving a field out while dropping the rest
                return False
            return False
        t = blk["term"]
        if t["k"] in ("drop", "goto"):
            st.append(t["target"])
        elif t["k"] in ("return", "unreachable"):
            continue
        elif t["k"] == "switch":
            for sx in body.succ[x]:
                st.append(sx)
        else:
            return False
    return True


# ------------------------------------------------------------------------------------------
# F3: consumers of a value


class Consumer:
    __slots__ = ("kind", "site", "info")

    def __init__(self, kind, site, info=None):
        self.kind = kind  # 'call' (info=(callee, arg_idx)), 'match', 'return', 'ref', 'store', 'field', 'other', 'drop'
        self.site = site
        self.info = info

    def describe(self):
        if self.kind == "call":
            return "call %s arg#%d" % (strip_generics(callee_name(self.info[0]) or "<indirect>"), self.info[1])
        return self.kind

    def __repr__(self):
        return "<%s at %s>" % (self.describe(), self.site.loc())


def consumers(body, local, follow_refs=True, _seen=None):
    """what happens to the value held in `local`: followed through whole-local moves/copies and
    (optionally) through borrows.  Drop terminators and drop-glue discriminant reads are not
    consumers."""
    if _seen is None:
        _seen = set()
    if local in _seen:
        return []
    _seen.add(local)
    out = []
    for s in body.sites():
        n = s.node
        if s.si is not None:
            if n["k"] != "assign":
                continue
            rv = n["rv"]
            k = rv["k"]
            if k in ("use", "cast"):
                p = op_place(rv["ops"][0])
                if p is not None and p["l"] == local:
                    if not p["p"] and not n["dst"]["p"]:
                        out.extend(consumers(body, n["dst"]["l"], follow_refs, _seen))
                    elif not p["p"] and n["dst"]["l"] == 0:
                        out.append(Consumer("return", s))
                    elif not p["p"]:
                        out.append(Consumer("store", s, n["dst"]))
                    else:
                        out.append(Consumer("field", s, p))
            elif k in ("ref", "rawptr"):
                p = rv["place"]
                if p["l"] == local:
                    if follow_refs and not n["dst"]["p"]:
                        sub = consumers(body, n["dst"]["l"], follow_refs, _seen)
                        out.extend(sub)
                    else:
                        out.append(Consumer("ref", s))
            elif k == "discr":
                p = rv["place"]
                if p["l"] == local:
                    # find the switch using it
                    sw = None
                    t = body.blocks[s.bb]["term"]
                    if t["k"] == "switch":
                        sw = Site(body, s.bb, None)
                    if sw is not None and is_drop_glue_region(body, body.succ[s.bb]):
                        continue
                    if sw is None:
                        # discriminant read not followed by a switch in the same block: drop glue
                        # reads of this kind sit right before `return`
                        if t["k"] in ("return", "drop", "goto"):
                            continue
                    out.append(Consumer("match", s))
            elif k == "aggregate":
                for i, o in enumerate(rv["ops"]):
                    p = op_place(o)
                    if p is not None and p["l"] == local:
                        if n["dst"]["l"] == 0 and not n["dst"]["p"]:
                            out.append(Consumer("return", s, ("aggregate", i)))
                        else:
                            out.append(Consumer("store", s, ("aggregate", rv["agg"], i)))
            else:
                for o in rvalue_operands(rv):
                    p = op_place(o)
                    if p is not None and p["l"] == local:
                        out.append(Consumer("other", s, rv["k"]))
        else:
            k = n["k"]
            if k == "call":
                for i, a in enumerate(n["args"]):
                    p = op_place(a)
                    if p is not None and p["l"] == local:
                        out.append(Consumer("call", s, (n.get("callee"), i)))
            elif k == "switch":
                p = op_place(n["discr"])
                if p is not None and p["l"] == local:
                    out.append(Consumer("match", s))
            elif k == "return" and local == 0:
                pass
    if local == 0:
        out.append(Consumer("return", Site(body, body.exits()[0] if body.exits() else 0, None)))
    return out


# ------------------------------------------------------------------------------------------
# diverging calls


def is_panic_call(site):
    c = callee_of(site)
    return c is not None and callee_is(c, *PANIC_FNS)


def block_diverges(body, bb):
    """the block ends in a call that never returns (panic, exit)"""
    t = body.blocks[bb]["term"]
    return t["k"] == "call" and t.get("target") is None


def always_diverges_from(body, bb, _limit=200):
    """every path from bb ends in a diverging call (no return reachable)"""
    return not body.can_return(bb)


# ------------------------------------------------------------------------------------------
# F4/F5: branch conditions


def switch_subject(body, sw):
    """(place, is_discr) tested by the switch at site `sw` (None for constant discriminants)"""
    t = sw.node
    p = op_place(t["discr"])
    if p is None:
        return None
    if not p["p"]:
        ds = body.defs.get(p["l"], [])
        if len(ds) == 1 and ds[0].si is not None and ds[0].node["k"] == "assign":
            rv = ds[0].node["rv"]
            if rv["k"] == "discr":
                return (rv["place"], True)
            if rv["k"] == "use" and body.local_name(p["l"]) is None:
                q = op_place(rv["ops"][0])
                if q is not None and q["p"]:
                    return (q, False)
    return (p, False)


class Cond:
    """a branch fact: `subject` (place) [discriminant] takes one of `values` (strings) or, when
    `negated`, none of them"""

    __slots__ = ("switch", "place", "is_discr", "values", "negated")

    def __init__(self, switch, place, is_discr, values, negated):
        self.switch = switch
        self.place = place
        self.is_discr = is_discr
        self.values = values
        self.negated = negated

    def holds_value(self, v):
        """is the condition exactly `subject == v`"""
        v = str(v)
        if not self.negated:
            return self.values == [v]
        # bool: not 0 == 1
        return False

    def is_true(self):
        """bool subject known true"""
        return (self.negated and self.values == ["0"]) or (not self.negated and self.values == ["1"])

    def is_false(self):
        return (not self.negated and self.values == ["0"]) or (self.negated and self.values == ["1"])

    def __repr__(self):
        from .core import proj_str

        return "%s%s %s %s" % ("discr " if self.is_discr else "", proj_str(self.place), "not in" if self.negated else "in", self.values)


def conditions(body, bb):
    """branch facts that hold whenever block bb executes (from dominating switches)"""
    from .core import controlling_switches

    out = []
    for sw, lead in controlling_switches(body, bb):
        subj = switch_subject(body, sw)
        if subj is None:
            continue
        t = sw.node
        vals = []
        other = t["otherwise"] in lead and not body.is_unreachable_block(t["otherwise"])
        for v, tb in t["targets"]:
            if tb in lead:
                vals.append(v)
        if other:
            # complement of the values NOT leading here
            excluded = [v for v, tb in t["targets"] if tb not in lead]
            out.append(Cond(sw, subj[0], subj[1], excluded, True))
        else:
            out.append(Cond(sw, subj[0], subj[1], vals, False))
    return out


def bool_origin_calls(body, place):
    """call origins of a bool place (e.g. the `eq` call behind `if a == b`)"""
    return [o for o in origins(body, place, transparent=()) if o.kind == "call"]


# ------------------------------------------------------------------------------------------
# conditions across one call level, and what a short-circuit bool implies


def resolve_copy(body, local, limit=8):
    """follow `tmp = copy/move x` (single definition, bare locals) back to the variable it copies"""
    from .core import op_place

    for _ in range(limit):
        if 1 <= local <= body.n_args or body.local_name(local) is not None:
            return local
        ds = body.defs.get(local, [])
        if len(ds) != 1 or ds[0].si is None or ds[0].node["k"] != "assign" or ds[0].node["rv"]["k"] != "use":
            return local
        q = op_place(ds[0].node["rv"]["ops"][0])
        if q is None or q["p"]:
            return local
        local = q["l"]
    return local


def translated_conditions(prog, caller, call_site, callee, bb):
    """branch facts holding at block `bb` of `callee` when it is called from `call_site` of `caller`:
    the callee's conditions on its own parameters re-expressed on the caller's locals (the argument
    operands, copies resolved), followed by the caller's conditions at the call site.  Conditions
    of the callee on values it computes itself are dropped (they cannot be expressed in the caller)."""
    from .core import op_place

    out = []
    args = call_site.node["args"]
    for c in conditions(callee, bb):
        l = resolve_copy(callee, c.place["l"]) if not c.place["p"] else c.place["l"]
        if not (1 <= l <= callee.n_args) or l - 1 >= len(args):
            continue
        q = op_place(args[l - 1])
        if q is None:
            continue
        base = resolve_copy(caller, q["l"]) if not q["p"] else q["l"]
        place = {"l": base, "p": (list(q["p"]) if q["p"] and base == q["l"] else []) + list(c.place["p"])}
        out.append(Cond(c.switch, place, c.is_discr, c.values, c.negated))
    return out + conditions(caller, call_site.bb)


def truth_implies(body, local, depth=0, _seen=None):
    """named bool variables that are certainly true whenever the bool in `local` is true
    (through the lowering of `a && b`, copies and branch-dependent constant assignments);
    None when the local can never be true"""
    from .core import op_place, op_const

    if _seen is None:
        _seen = set()
    if depth > 8 or local in _seen:
        return set()
    _seen = _seen | {local}
    if body.local_name(local) is not None or 1 <= local <= body.n_args:
        return {local}
    res = None
    for d in body.defs.get(local, []):
        here = set()
        for c in conditions(body, d.bb):
            if not c.is_discr and not c.place["p"] and body.local_ty(c.place["l"]) == "bool" and c.is_true():
                t = truth_implies(body, c.place["l"], depth + 1, _seen)
                if t:
                    here |= t
        if d.si is not None and d.node["k"] == "assign" and d.node["rv"]["k"] == "use":
            k = op_const(d.node["rv"]["ops"][0])
            if k is not None and "bool" in k:
                if k["bool"] is False:
                    continue
                cur = here
            else:
                q = op_place(d.node["rv"]["ops"][0])
                if q is not None and not q["p"]:
                    t = truth_implies(body, q["l"], depth + 1, _seen)
                    if t is None:
                        continue
                    cur = here | t
                else:
                    cur = here
        else:
            cur = here
        res = cur if res is None else (res & cur)
    return res


def on_some_arm(c):
    """the condition says: the Option / Result discriminant is 1 (Some / Err), in match form or as the fall-through of a `let .. else`"""
    return c.is_discr and ((not c.negated and c.values == ["1"]) or (c.negated and c.values == ["0"]))


def on_none_arm(c):
    return c.is_discr and ((not c.negated and c.values == ["0"]) or (c.negated and c.values == ["1"]))


def reachable_with_const_bools(body, start_bb, avoid=()):
    """blocks reachable from start_bb when bool locals assigned constants on the way (and their copies / negations) decide
    the switches that test them; other switches go both ways.  Path-sensitive on those bools (explores (block, env) pairs)."""
    from .core import op_place, op_const

    seen = set()
    out = set()
    work = [(start_bb, ())]
    while work:
        bb, envt = work.pop()
        if (bb, envt) in seen or bb in avoid or len(seen) > 4000:
            continue
        seen.add((bb, envt))
        out.add(bb)
        env = dict(envt)
        for st in body.blocks[bb]["stmts"]:
            if st["k"] != "assign" or st["dst"]["p"] or body.local_ty(st["dst"]["l"]) != "bool":
                continue
            rv = st["rv"]
            val = None
            if rv["k"] == "use":
                k = op_const(rv["ops"][0])
                if k is not None and "bool" in k:
                    val = k["bool"]
                else:
                    q = op_place(rv["ops"][0])
                    if q is not None and not q["p"]:
                        val = env.get(q["l"])
            elif rv["k"] == "unop" and rv["op"] == "Not":
                q = op_place(rv["ops"][0])
                if q is not None and not q["p"] and env.get(q["l"]) is not None:
                    val = not env[q["l"]]
            if val is None:
                env.pop(st["dst"]["l"], None)
            else:
                env[st["dst"]["l"]] = val
        t = body.blocks[bb]["term"]
        succs = list(body.succ[bb])
        if t["k"] == "call" and t.get("dst") is not None and not t["dst"]["p"]:
            env.pop(t["dst"]["l"], None)
        if t["k"] == "switch":
            p = op_place(t["discr"])
            if p is not None and not p["p"] and body.local_ty(p["l"]) == "bool" and p["l"] in env:
                zero = [tb for x, tb in t["targets"] if x == "0"]
                one = [tb for x, tb in t["targets"] if x == "1"]
                succs = (one or [t["otherwise"]]) if env[p["l"]] else (zero or succs)
        for sc in succs:
            work.append((sc, tuple(sorted(env.items()))))
    return out


# ------------------------------------------------------------------------------------------
# finite cells: path-sensitive exploration over bool locals and enum discriminants


def _variant_count(prog, body, ty):
    a = prog.adts_by_target[body.target].get(ty) or prog.adt(ty)
    if a is not None and a.get("variants"):
        return len(a["variants"])
    if ty.startswith("core::result::Result<") or ty.startswith("core::option::Option<") or ty.startswith("core::ops::control_flow::ControlFlow<"):
        return 2
    return None


_TRY_BRANCH = "core::ops::try_trait::Try::branch"
_VARIANT_KEEPING = ("anyhow::Context::with_context", "anyhow::Context::context", "core::result::Result::map_err", "core::result::Result::map", "core::option::Option::map")


def cell_summary(prog, callee, depth=0):
    """{(param local, value): frozenset of result values or None} for a local function: the values (variant index / bool) its
    result can take when the parameter holds the value; computed by exploring the function once per value"""
    key = ("cellsum", callee.id)
    cache = prog.__dict__.setdefault("_cell_summaries", {})
    if key in cache:
        return cache[key]
    cache[key] = {}
    out = {}
    if depth <= 1:
        for p in range(1, callee.n_args + 1):
            ty = callee.local_ty(p).replace("&mut ", "").replace("&", "").strip()
            n = 2 if ty == "bool" else _variant_count(prog, callee, ty)
            if n is None or n > 12:
                continue
            for v in range(n):
                res = set()
                top = False
                for bb, env in explore_cells(prog, callee, 0, {p: frozenset([v])}, depth=depth + 1):
                    if callee.blocks[bb]["term"]["k"] == "return":
                        e = dict(cell_block_exit(prog, callee, bb, env, depth + 1))
                        if 0 in e:
                            res |= set(e[0])
                        else:
                            top = True
                out[(p, v)] = None if top or not res else frozenset(res)
    cache[key] = out
    return out


def cell_block_exit(prog, body, bb, env, depth=0):
    """the valuation after the statements of block bb (before its terminator)"""
    return cell_steps(prog, body, bb, env, depth, _stmts_only=True)


def cell_steps(prog, body, bb, env, depth=0, _stmts_only=False):
    """successors of (bb, env): [(succ block, env', (switch block, value taken or 'otherwise') or None)].  `env` maps locals to the
    frozenset of values (bool as 0/1, enum variant index) they can hold; locals not in env are unknown"""
    from .core import op_place, op_const, callee_decl

    env = dict(env)
    alias = body.__dict__.setdefault("_discr_alias", None)
    if alias is None:
        alias = {}
        mutb = set()
        for b2 in body.blocks:
            for st in b2["stmts"]:
                if st["k"] == "assign" and not st["dst"]["p"] and st["rv"]["k"] == "discr" and (not st["rv"]["place"]["p"] or st["rv"]["place"]["p"] == ["*"]):
                    alias[st["dst"]["l"]] = st["rv"]["place"]["l"]
                if st["k"] == "assign" and st["rv"]["k"] == "ref" and st["rv"].get("mut") and not st["rv"]["place"]["p"]:
                    mutb.add(st["rv"]["place"]["l"])
        body.__dict__["_discr_alias"] = alias
        body.__dict__["_mut_borrowed"] = mutb
    mutb = body.__dict__["_mut_borrowed"]

    def val_of(op):
        k = op_const(op)
        if k is not None and "bool" in k:
            return frozenset([1 if k["bool"] else 0])
        q = op_place(op)
        if q is not None and not q["p"]:
            return env.get(q["l"])
        return None

    for st in body.blocks[bb]["stmts"]:
        if st["k"] == "setdiscr":
            if not st["dst"]["p"]:
                env[st["dst"]["l"]] = frozenset([st["variant_idx"]])
            continue
        if st["k"] != "assign":
            continue
        d = st["dst"]
        if d["p"]:
            continue  # a field write leaves the discriminant alone
        rv = st["rv"]
        val = None
        if rv["k"] == "use":
            val = val_of(rv["ops"][0])
        elif rv["k"] == "unop" and rv["op"] == "Not":
            v = val_of(rv["ops"][0])
            if v is not None and body.local_ty(d["l"]) == "bool":
                val = frozenset(1 - x for x in v)
        elif rv["k"] == "aggregate" and rv["agg"].get("kind") == "adt" and rv["agg"].get("variant") is not None and rv["agg"].get("variant_idx") is not None:
            val = frozenset([rv["agg"]["variant_idx"]])
        elif rv["k"] == "discr" and (not rv["place"]["p"] or rv["place"]["p"] == ["*"]):
            val = env.get(rv["place"]["l"])
        elif rv["k"] == "ref" and not rv.get("mut") and (not rv["place"]["p"] or rv["place"]["p"] == ["*"]):
            # a shared borrow (or reborrow) of a cell: reading the discriminant through it gives the cell's value
            val = env.get(rv["place"]["l"])
        if val is None:
            env.pop(d["l"], None)
        else:
            env[d["l"]] = val
    if _stmts_only:
        return tuple(sorted(env.items()))
    t = body.blocks[bb]["term"]
    succs = [(s, None) for s in body.succ[bb]]
    if t["k"] == "call":
        for l in list(env):
            if l in mutb:
                env.pop(l, None)
        dst = t.get("dst")
        if dst is not None and not dst["p"]:
            env.pop(dst["l"], None)
            c = t.get("callee")
            dec = callee_decl(c) if c else None
            a0 = val_of(t["args"][0]) if t.get("args") else None
            if dec == _TRY_BRANCH and a0 is not None and t.get("args"):
                q = op_place(t["args"][0])
                ty = body.local_ty(q["l"]) if q is not None else ""
                if ty.startswith("core::result::Result<"):
                    env[dst["l"]] = a0  # Ok(0) -> Continue(0), Err(1) -> Break(1)
                elif ty.startswith("core::option::Option<"):
                    env[dst["l"]] = frozenset(1 - x for x in a0)  # None(0) -> Break(1), Some(1) -> Continue(0)
            elif dec in _VARIANT_KEEPING and a0 is not None:
                env[dst["l"]] = a0
            elif dec in ("core::cmp::PartialEq::eq", "core::cmp::PartialEq::ne") and a0 is not None and len(t.get("args") or []) == 2:
                # `x == Enum::FieldlessVariant` (derived PartialEq): true exactly when the discriminants agree
                k = None
                for aop in (t["args"][1],):
                    kc = op_const(aop)
                    cur_ = op_place(aop)
                    for _hop in range(4):
                        if kc is not None or cur_ is None:
                            break
                        dds = body.defs.get(cur_["l"], [])
                        if len(dds) != 1 or dds[0].si is None or dds[0].node["k"] != "assign":
                            break
                        rv_ = dds[0].node["rv"]
                        if rv_["k"] == "use":
                            kc = op_const(rv_["ops"][0])
                            cur_ = op_place(rv_["ops"][0])
                        elif rv_["k"] == "ref":
                            cur_ = rv_["place"]
                        else:
                            break
                    if kc is not None and kc.get("variant") and kc.get("enum") and "payload" not in kc:
                        adt_ = prog.adt(kc["enum"]) if hasattr(prog, "adt") else None
                        if adt_ is None:
                            for tg in getattr(prog, "adts_by_target", {}).values():
                                adt_ = adt_ or tg.get(kc["enum"])
                        if adt_:
                            for v_ in adt_["variants"]:
                                if v_["name"] == kc["variant"] and not v_.get("fields"):
                                    k = v_["idx"]
                if k is not None:
                    if a0 == frozenset([k]):
                        res_ = frozenset([1])
                    elif k not in a0:
                        res_ = frozenset([0])
                    else:
                        res_ = frozenset([0, 1])
                    if dec.endswith("::ne"):
                        res_ = frozenset(1 - x for x in res_)
                    env[dst["l"]] = res_
            elif c is not None and depth <= 1:
                tgt = prog.body_for_callee(c, body)
                if tgt is not None and tgt.kind != "closure":
                    summ = cell_summary(prog, tgt, depth)
                    res = None
                    for i, a in enumerate(t.get("args") or []):
                        v = val_of(a)
                        if v is None:
                            # an unknown value of a finite type: every value the summary knows
                            v = frozenset(x for (pp, x) in summ if pp == i + 1)
                            if not v:
                                continue
                        parts = [summ.get((i + 1, x)) for x in v]
                        if parts and all(p is not None for p in parts):
                            u = frozenset().union(*parts)
                            res = u if res is None else (res & u)
                    if res is not None:
                        env[dst["l"]] = res
    if t["k"] == "switch":
        p = op_place(t["discr"])
        if p is not None and not p["p"] and p["l"] in env:
            cur = env[p["l"]]
            src = alias.get(p["l"])
            succs = []
            explicit = set()
            for x, tb in t["targets"]:
                try:
                    xv = int(x)
                except ValueError:
                    continue
                explicit.add(xv)
                if xv in cur:
                    succs.append((tb, (p["l"], src, frozenset([xv]), (bb, xv))))
            rest = frozenset(cur - explicit)
            if rest and t.get("otherwise") is not None:
                succs.append((t["otherwise"], (p["l"], src, rest, (bb, "otherwise"))))
            out = []
            for tb, (l, s, vals, edge) in succs:
                e2 = dict(env)
                e2[l] = vals
                if s is not None and s in e2:
                    e2[s] = e2[s] & vals if (e2[s] & vals) else vals
                elif s is not None:
                    e2[s] = vals
                out.append((tb, tuple(sorted(e2.items())), edge))
            return out
        # unknown subject: every edge, refining the (aliased) cell along explicit values
        out = []
        explicit = set()
        src = alias.get(p["l"]) if p is not None and not p["p"] else None
        track = p is not None and not p["p"] and (body.local_ty(p["l"]) == "bool" or src is not None)
        for x, tb in t["targets"]:
            e2 = dict(env)
            try:
                xv = int(x)
            except ValueError:
                xv = None
            if track and xv is not None:
                explicit.add(xv)
                e2[p["l"]] = frozenset([xv])
                if src is not None:
                    e2[src] = frozenset([xv])
            out.append((tb, tuple(sorted(e2.items())), (bb, xv if xv is not None else x)))
        if t.get("otherwise") is not None:
            e2 = dict(env)
            if track and body.local_ty(p["l"]) == "bool" and explicit == {0}:
                e2[p["l"]] = frozenset([1])
            elif track and src is not None:
                n = _variant_count(prog, body, body.local_ty(src))
                if n is not None:
                    rest = frozenset(range(n)) - explicit
                    if rest:
                        e2[p["l"]] = rest
                        e2[src] = rest
            out.append((t["otherwise"], tuple(sorted(e2.items())), (bb, "otherwise")))
        return out
    return [(s, tuple(sorted(env.items())), None) for s, _ in succs]


def explore_cells(prog, body, start_bb, env0=None, avoid=(), depth=0, limit=6000):
    """[(block, env)] reachable from start_bb with the initial cell valuation env0 ({local: frozenset(values)})"""
    seen = set()
    out = []
    work = [(start_bb, tuple(sorted((env0 or {}).items())))]
    while work:
        bb, envt = work.pop()
        if (bb, envt) in seen or bb in avoid:
            continue
        if len(seen) > limit:
            break
        seen.add((bb, envt))
        out.append((bb, envt))
        for sc, e2, _ in cell_steps(prog, body, bb, envt, depth):
            work.append((sc, e2))
    return out
