"""format_args! templates recovered from MIR (`fmt::Arguments::new(<template bytes>, <args>)`)."""
from .core import Site, callee_of, callee_is, op_place, op_const, origins, strip_generics, callee_name


def decode_template(raw):
    """decode the byte template of core::fmt::Arguments (see library/core/src/fmt/mod.rs):
    returns a list of ('lit', text) and ('arg', index) pieces"""
    b = [ord(c) for c in raw]
    out = []
    i = 0
    argi = 0
    while i < len(b):
        n = b[i]
        i += 1
        if n == 0:
            break
        if n < 0x80:
            out.append(("lit", bytes(b[i : i + n]).decode("utf-8", "replace")))
            i += n
        elif n == 0x80:
            ln = b[i] | (b[i + 1] << 8)
            i += 2
            out.append(("lit", bytes(b[i : i + ln]).decode("utf-8", "replace")))
            i += ln
        else:
            opts = {}
            if n & 1:
                opts["flags"] = b[i] | (b[i + 1] << 8) | (b[i + 2] << 16) | (b[i + 3] << 24)
                i += 4
            if n & 2:
                opts["width"] = b[i] | (b[i + 1] << 8)
                i += 2
            if n & 4:
                opts["precision"] = b[i] | (b[i + 1] << 8)
                i += 2
            if n & 8:
                argi = b[i] | (b[i + 1] << 8)
                i += 2
            out.append(("arg", argi, opts))
            argi += 1
    # merge adjacent literals
    merged = []
    for p in out:
        if p[0] == "lit" and merged and merged[-1][0] == "lit":
            merged[-1] = ("lit", merged[-1][1] + p[1])
        else:
            merged.append(p)
    return merged


def template_str(pieces):
    return "".join(p[1] if p[0] == "lit" else "{}" for p in pieces)


class FormatSite:
    """one `format_args!` expansion: template text with `{}` placeholders, the operand places of
    the displayed values (in argument-array order) and the formatting trait of each"""

    def __init__(self, site, pieces, args):
        self.site = site
        self.body = site.body
        self.pieces = pieces
        self.args = args  # list of (trait_fn_name, operand)
        self.template = template_str(pieces)

    @property
    def result_local(self):
        return self.site.node["dst"]["l"]

    def __repr__(self):
        return "<fmt %r at %s>" % (self.template, self.site.loc())


def format_sites(body):
    out = []
    for s in body.calls():
        c = callee_of(s)
        if callee_is(c, "core::fmt::Arguments::new"):
            a0 = s.node["args"][0]
            tmpl = None
            for o in origins(body, a0):
                if o.kind == "const" and "bytes" in o.data:
                    tmpl = o.data["bytes"]
            if tmpl is None:
                continue
            pieces = decode_template(tmpl)
            args = []
            a1 = s.node["args"][1]
            # &[Argument; N]  <- array aggregate of Argument::new_* call results
            for o in origins(body, a1):
                if o.kind == "agg" and o.data["kind"] == "array":
                    for op in o.site.node["rv"]["ops"]:
                        found = None
                        for oo in origins(body, op, transparent=()):
                            if oo.kind == "call":
                                nm = strip_generics(callee_name(oo.data) or "")
                                if "fmt::rt::Argument" in nm:
                                    found = (nm.rsplit("::", 1)[-1], oo.site.node["args"][0])
                        args.append(found)
            out.append(FormatSite(s, pieces, args))
        elif callee_is(c, "core::fmt::Arguments::from_str"):
            a0 = s.node["args"][0]
            lit = None
            for o in origins(body, a0):
                if o.kind == "const" and "str" in o.data:
                    lit = o.data["str"]
            if lit is None:
                continue
            out.append(FormatSite(s, [("lit", lit)], []))
    return out


def format_consumer(fs):
    """the call that consumes the fmt::Arguments value (write_fmt, format, _print, panic_fmt ...)"""
    from .flow import consumers

    cs = [c for c in consumers(fs.body, fs.result_local) if c.kind == "call"]
    return cs
