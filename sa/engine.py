"""Rule engine: fact generation from /repo's working tree, rule bookkeeping, known findings,
evidence and replay files."""
import fcntl
import hashlib
import json
import os
import shutil
import subprocess
import sys
import time
import uuid

from . import core

VERIF = os.path.dirname(os.path.dirname(os.path.abspath(__file__)))
REPO = os.environ.get("VERIF_REPO", "/repo")
# the regression tools (tools/bank.py, selftest/run.py) may be run in several shards side by side: each shard then names its own cache
# directory (facts, cargo target, lock) in VERIF_CACHE; the registered checks always use the default
CACHE = os.environ.get("VERIF_CACHE") or os.path.join(VERIF, ".cache")
DRIVER = os.path.join(VERIF, "tools", "mirfacts", "target", "debug", "mirfacts")
RELANG = os.path.join(VERIF, "tools", "relang", "target", "release", "relang")
EXPECTED_TARGETS = ("lib", "bin:crustabri", "bin:crustabri_iccma23")


class CannotAnalyse(Exception):
    pass


def _env():
    e = dict(os.environ)
    e["CARGO_NET_OFFLINE"] = "true"
    return e


def nightly_sysroot():
    return subprocess.check_output(["rustc", "+nightly", "--print", "sysroot"], env=_env()).decode().strip()


def generate_facts(repo=REPO, keep_dir=None):
    """run the driver over the three targets of `repo`; returns (Program, textq doc, stats)"""
    os.makedirs(CACHE, exist_ok=True)
    if not os.path.exists(DRIVER):
        raise CannotAnalyse("driver not built (run ./setup.sh): %s" % DRIVER)
    nonce = uuid.uuid4().hex
    t0 = time.time()
    lock = open(os.path.join(CACHE, "lock"), "w")
    fcntl.flock(lock, fcntl.LOCK_EX)
    try:
        target = os.path.join(CACHE, "target")
        facts = os.path.join(CACHE, "facts")
        shutil.rmtree(facts, ignore_errors=True)
        os.makedirs(facts)
        fp = os.path.join(target, "debug", ".fingerprint")
        if os.path.isdir(fp):
            for d in os.listdir(fp):
                if d.startswith("crustabri-"):
                    shutil.rmtree(os.path.join(fp, d), ignore_errors=True)
        env = _env()
        env["LD_LIBRARY_PATH"] = nightly_sysroot() + "/lib" + (":" + env["LD_LIBRARY_PATH"] if env.get("LD_LIBRARY_PATH") else "")
        env["MIRFACTS_OUT"] = facts
        env["MIRFACTS_NONCE"] = nonce
        env["RUSTFLAGS"] = "-Zmir-opt-level=0 -Awarnings"
        env["RUSTC_WORKSPACE_WRAPPER"] = DRIVER
        env["CARGO_TARGET_DIR"] = target
        env.pop("RUSTC_WRAPPER", None)
        p = subprocess.run(
            ["cargo", "+nightly", "check", "--offline", "--lib", "--bins", "--quiet"],
            cwd=repo,
            env=env,
            stdout=subprocess.PIPE,
            stderr=subprocess.STDOUT,
        )
        if p.returncode != 0:
            raise CannotAnalyse("cargo check of %s failed:\n%s" % (repo, p.stdout.decode(errors="replace")[-4000:]))
        prog = core.Program(facts, nonce=nonce)
        for t in EXPECTED_TARGETS:
            if t not in prog.targets:
                raise CannotAnalyse("no fresh fact file for target %s (cargo replayed a cached result?)" % t)
        tq = {}
        if keep_dir:
            shutil.rmtree(keep_dir, ignore_errors=True)
            shutil.copytree(facts, keep_dir)
    finally:
        fcntl.flock(lock, fcntl.LOCK_UN)
        lock.close()
    stats = {
        "fact_generation_s": round(time.time() - t0, 2),
        "targets": sorted(prog.targets),
        "bodies": {t: len(prog.by_target[t]) for t in sorted(prog.targets)},
        "adts": len(prog.adts),
        "impls": len(prog.impls),
    }
    return prog, tq, stats


def relang(query):
    """run a regex-language query (dict) through tools/relang; returns the answer dict"""
    if not os.path.exists(RELANG):
        raise CannotAnalyse("relang not built (run ./setup.sh): %s" % RELANG)
    p = subprocess.run([RELANG], input=json.dumps(query).encode(), stdout=subprocess.PIPE, stderr=subprocess.PIPE, env=_env())
    if p.returncode != 0:
        raise CannotAnalyse("relang failed: %s" % p.stderr.decode(errors="replace")[-2000:])
    return json.loads(p.stdout.decode())


# ------------------------------------------------------------------------------------------


class Rule:
    def __init__(self, ctx, rid, text):
        self.ctx = ctx
        self.id = rid
        self.text = text
        self.instances = []  # dicts
        self.violations = []
        self.notes = []

    def ok(self, anchor, what, loc=None):
        """one obligation discharged"""
        self.instances.append({"anchor": anchor, "what": what, "loc": loc, "ok": True})

    def violation(self, anchor, detail, what, loc=None, path=None):
        key = "%s|%s|%s|%s" % (self.ctx.prop, self.id, anchor, detail)
        v = {"key": key, "rule": self.id, "rule_text": self.text, "anchor": anchor, "detail": detail, "what": what, "loc": loc, "path": path}
        self.instances.append({"anchor": anchor, "what": what, "loc": loc, "ok": False, "key": key})
        self.violations.append(v)
        return v

    def check(self, cond, anchor, detail, what_ok, what_bad=None, loc=None, path=None):
        if cond:
            self.ok(anchor, what_ok, loc)
        else:
            self.violation(anchor, detail, what_bad or ("NOT: " + what_ok), loc, path)
        return cond

    def note(self, s):
        self.notes.append(s)

    def require_anchor(self, found, anchor_desc):
        """fail closed when an anchor query matches nothing"""
        if not found:
            self.violation("anchor", "missing:" + anchor_desc, "cannot analyse: anchor query matched nothing: " + anchor_desc)
            return False
        return True

    def floor(self, n, minimum, what):
        """coverage condition: at least `minimum` instances of `what` were analysed"""
        if n < minimum:
            self.violation("coverage", "floor:" + what, "coverage condition failed: %d < %d %s" % (n, minimum, what))
            return False
        self.note("coverage: %d %s (floor %d)" % (n, what, minimum))
        return True


class Context:
    def __init__(self, prop, tier, prog, tq, stats):
        self.prop = prop
        self.tier = tier
        self.prog = prog
        self.tq = tq
        self.stats = stats
        self.rules = []
        self.assumptions = []
        self.extra = {}

    def rule(self, rid, text):
        r = Rule(self, rid, text)
        self.rules.append(r)
        return r

    def assume(self, s):
        if s not in self.assumptions:
            self.assumptions.append(s)


def load_known():
    p = os.path.join(VERIF, "known_findings.json")
    if not os.path.exists(p):
        return {"known": [], "fixed": []}
    with open(p) as f:
        return json.load(f)


def finish(ctx, t0, explanation, level="other"):
    """write evidence + replay files, print KNOWN-FINDING / VIOLATION lines, return exit code"""
    known = {k["key"]: k for k in load_known().get("known", []) if k.get("property") == ctx.prop}
    all_v = [v for r in ctx.rules for v in r.violations]
    new_v = [v for v in all_v if v["key"] not in known]
    kf_v = [v for v in all_v if v["key"] in known]
    n_obl = sum(len(r.instances) for r in ctx.rules)
    n_ok = sum(1 for r in ctx.rules for i in r.instances if i["ok"])
    samples = []
    for r in ctx.rules:
        for i in r.instances[:3]:
            samples.append({"rule": r.id, "anchor": i["anchor"], "what": i["what"], "loc": i["loc"], "ok": i["ok"]})
    rules_out = []
    for r in ctx.rules:
        rules_out.append(
            {
                "rule": r.id,
                "text": r.text,
                "obligations": len(r.instances),
                "discharged": sum(1 for i in r.instances if i["ok"]),
                "notes": r.notes,
                "instances": [{k: v for k, v in i.items() if v is not None} for i in r.instances],
            }
        )
    ev = {
        "property_id": ctx.prop,
        "tier": ctx.tier,
        "seed": int(os.environ.get("VERIF_SEED", "0") or 0),
        "level": level,
        "coverage": {
            "explanation": explanation,
            "obligations": n_obl,
            "discharged": n_ok,
            "known_findings_matched": len(kf_v),
            "rule": "one obligation per (rule, program construct matched by the rule's anchor query); distinct = distinct (rule, anchor, detail) keys",
            "evaluations": n_obl,
            "distinct_nontrivial": len({(r.id, i["anchor"], i["what"]) for r in ctx.rules for i in r.instances}),
            "exhaustive": True,
            "analysed": ctx.stats,
            "samples": samples,
            "rules": rules_out,
            "checker_cmd": "./check %s --tier %s" % (ctx.prop, ctx.tier),
            "trusted_base": ctx.assumptions,
        },
        "assumptions": ctx.assumptions,
        "wall_s": round(time.time() - t0, 2),
        "violations": len(new_v),
    }
    ev["coverage"].update(ctx.extra)
    # sharded regression runs of the checker write their (throw-away) evidence elsewhere; the registered checks use the default
    evdir = os.environ.get("VERIF_EVIDENCE") or os.path.join(VERIF, "evidence")
    os.makedirs(evdir, exist_ok=True)
    with open(os.path.join(evdir, "%s.json" % ctx.prop), "w") as f:
        json.dump(ev, f, indent=1, sort_keys=False)
        f.write("\n")
    for r in ctx.rules:
        print("[%s] rule %-22s obligations=%d discharged=%d" % (ctx.prop, r.id, len(r.instances), sum(1 for i in r.instances if i["ok"])))
    for v in kf_v:
        print("KNOWN-FINDING: property=%s %s [%s]" % (ctx.prop, known[v["key"]].get("what", v["what"]), v["key"]))
    code = 0
    if new_v:
        rdir = os.path.join(evdir, "replay")
        os.makedirs(rdir, exist_ok=True)
        for v in new_v:
            h = hashlib.sha1(v["key"].encode()).hexdigest()[:10]
            rp = os.path.join("evidence", "replay", "%s-%s.json" % (ctx.prop, h))
            with open(os.path.join(rdir, "%s-%s.json" % (ctx.prop, h)), "w") as f:
                json.dump({"property": ctx.prop, "violation": v}, f, indent=1)
            print("  rule %s: %s" % (v["rule"], v["rule_text"]))
            print("  at %s: %s" % (v.get("loc"), v["what"]))
            if v.get("path"):
                print("  path: %s" % v["path"])
            print("  key: %s" % v["key"])
            print("VIOLATION property=%s replay=%s" % (ctx.prop, rp))
        code = 1
    else:
        print("[%s] OK: %d obligations over %d rules, %d known finding(s)" % (ctx.prop, n_obl, len(ctx.rules), len(kf_v)))
    return code
