"""F6: literal roles and list completeness for values reaching SAT sinks.

`literals_of(prog, body, operand)` describes the literals a Vec<Literal> / &[Literal] / iterator /
single Literal operand may contain, as a set of Lit descriptors:
    role     'ARG' (ConstraintsEncoder::arg_to_lit or a dynamic encoder's arg_to_lit), 'SEL'
             (Literal::from(1 + n_vars())), 'VAR' (another Literal::from), 'PARAM' (content of a
             parameter of the function), 'UNKNOWN'
    pos      polarity: True / False (after Literal::negate / unary minus), None unknown
    many     True when the literal is produced once per element of a list (map/filter_map), False
             for a single literal
    lst      for many-literals: 'FULL' (a total image of the query list parameter), 'PARTIAL' (a
             filter / filter_map of it), 'OTHER' (another iteration space)
    site     where it is produced
May-analysis, flow-insensitive; modelled std functions are listed in MODEL below; everything else
yields UNKNOWN (which rules treat as "cannot analyse" where it matters).
"""
import re

from .core import (
    Site,
    callee_of,
    callee_decl,
    callee_name,
    callee_matches,
    strip_generics,
    op_place,
    op_const,
    origins,
    data_deps,
    place_fields,
)

ELEMENT_PRESERVING = (
    "core::iter::traits::iterator::Iterator::collect",
    "core::iter::traits::collect::IntoIterator::into_iter",
    "core::slice::iter",
    "alloc::slice::to_vec",
    "core::iter::traits::iterator::Iterator::cloned",
    "core::iter::traits::iterator::Iterator::copied",
    "core::iter::traits::iterator::Iterator::rev",
    "core::clone::Clone::clone",
    "core::ops::deref::Deref::deref",
    "core::ops::deref::DerefMut::deref_mut",
    "alloc::vec::Vec::as_slice",
    "alloc::vec::Vec::as_mut_slice",
    "core::convert::AsRef::as_ref",
    "core::convert::AsMut::as_mut",
    "core::borrow::Borrow::borrow",
    "core::iter::traits::iterator::Iterator::by_ref",
    "core::option::Option::unwrap",
    "core::option::Option::expect",
    "core::option::Option::as_ref",
    "core::hint::must_use",
)
FILTERING = (
    "core::iter::traits::iterator::Iterator::filter",
    "core::iter::traits::iterator::Iterator::filter_map",
    "core::iter::traits::iterator::Iterator::take",
    "core::iter::traits::iterator::Iterator::skip",
    "core::iter::traits::iterator::Iterator::take_while",
    "core::iter::traits::iterator::Iterator::skip_while",
    "core::iter::traits::iterator::Iterator::step_by",
)
MAPPING = ("core::iter::traits::iterator::Iterator::map", "core::iter::traits::iterator::Iterator::filter_map", "core::iter::traits::iterator::Iterator::flat_map")
MODEL = ELEMENT_PRESERVING + FILTERING + MAPPING + ("core::iter::traits::iterator::Iterator::chain", "core::iter::sources::once::once", "alloc::vec::Vec::new", "alloc::vec::Vec::with_capacity", "alloc::vec::Vec::push", "alloc::vec::Vec::append", "alloc::vec::Vec::extend", "alloc::boxed::box_assume_init_into_vec_unsafe")

ARG_TO_LIT = r"(encodings::specs::ConstraintsEncoder::arg_to_lit|DynamicConstraintsEncoder::arg_to_lit)$"


class Lit:
    __slots__ = ("role", "pos", "many", "lst", "site", "note")

    def __init__(self, role, pos=True, many=False, lst=None, site=None, note=None):
        self.role = role
        self.pos = pos
        self.many = many
        self.lst = lst
        self.site = site
        self.note = note

    def flip(self):
        return Lit(self.role, None if self.pos is None else (not self.pos), self.many, self.lst, self.site, self.note)

    def as_many(self, lst):
        return Lit(self.role, self.pos, True, lst, self.site, self.note)

    def key(self):
        return (self.role, self.pos, self.many, self.lst)

    def __repr__(self):
        s = "%s%s" % ("+" if self.pos else ("-" if self.pos is False else "?"), self.role)
        if self.many:
            s += "*[%s]" % self.lst
        return s


def _dedupe(lits):
    out = {}
    for l in lits:
        # the selector of a maximal-extension computer's state and a selector made locally are different literals
        k = l.key() + ((("state" if "selector" in str(l.note or "") else "local"),) if l.role == "SEL" else ())
        out.setdefault(k, l)
    return list(out.values())


def list_kind(prog, body, op, list_params, depth=0):
    """'FULL' / 'PARTIAL' / 'OTHER' for an iterator or collection operand w.r.t. the query-list
    parameters `list_params` of the enclosing function"""
    if depth > 12:
        return "OTHER"
    kinds = set()
    for o in origins(body, op, transparent=ELEMENT_PRESERVING):
        if o.kind == "param":
            kinds.add("FULL" if o.data in list_params else "OTHER")
        elif o.kind == "upvar" and body.kind == "closure":
            par = prog.enclosing_fn(body)
            kinds.add(_upvar_list_kind(prog, body, o.data, list_params))
        elif o.kind == "call":
            d = callee_decl(o.data)
            if d in FILTERING:
                k = list_kind(prog, body, o.site.node["args"][0], list_params, depth + 1)
                kinds.add("PARTIAL" if k in ("FULL", "PARTIAL") else "OTHER")
            elif d in MAPPING:
                k = list_kind(prog, body, o.site.node["args"][0], list_params, depth + 1)
                if d.endswith("filter_map") or d.endswith("flat_map"):
                    kinds.add("PARTIAL" if k in ("FULL", "PARTIAL") else "OTHER")
                else:
                    kinds.add(k)
            elif d in ("core::iter::traits::iterator::Iterator::enumerate", "core::iter::traits::iterator::Iterator::zip", "core::iter::traits::iterator::Iterator::peekable"):
                kinds.add(list_kind(prog, body, o.site.node["args"][0], list_params, depth + 1))
            elif d in ("alloc::vec::Vec::new", "alloc::vec::Vec::with_capacity") and o.site is not None:
                # a vector filled by hand: one push per iteration of a loop over a list keeps the list's kind
                kinds.add(_pushed_list_kind(prog, body, o.site, list_params, depth))
            else:
                # a local helper that maps a list it is given (`fn query_arguments(&self, labels: &[&T]) -> Vec<&Label<T>>`)
                tgt = prog.body_for_callee(o.data, body) if o.data.get("decl") != "<indirect>" else None
                got = None
                if tgt is not None and tgt.kind != "closure" and depth < 6:
                    import re as _re

                    for k in range(1, tgt.n_args + 1):
                        if not _re.match(r"^&(mut )?\[|^&?alloc::vec::Vec<", tgt.local_ty(k)) or k - 1 >= len(o.site.node["args"]):
                            continue
                        inner = list_kind(prog, tgt, {"c": {"l": 0, "p": []}}, {k}, depth + 1)
                        if inner in ("FULL", "PARTIAL"):
                            outer = list_kind(prog, body, o.site.node["args"][k - 1], list_params, depth + 1)
                            if outer in ("FULL", "PARTIAL"):
                                got = "FULL" if (inner, outer) == ("FULL", "FULL") else "PARTIAL"
                kinds.add(got or "OTHER")
        else:
            kinds.add("OTHER")
    if not kinds:
        return "OTHER"
    if kinds == {"FULL"}:
        return "FULL"
    if kinds <= {"FULL", "PARTIAL"}:
        return "PARTIAL"
    return "OTHER"


def _pushed_list_kind(prog, body, new_site, list_params, depth):
    dst = new_site.node["dst"]["l"]
    pushes = [s for s in body.mut_call_defs.get(dst, []) if callee_decl(callee_of(s)) == "alloc::vec::Vec::push"]
    others = [s for s in body.mut_call_defs.get(dst, []) if callee_decl(callee_of(s)) not in ("alloc::vec::Vec::push", "alloc::vec::Vec::reserve")]
    if not pushes or others:
        return "OTHER"
    loops = body.loops()
    out = set()
    for ps in pushes:
        ls = [(h, bl) for h, bl in loops if ps.bb in bl]
        if not ls:
            return "OTHER"
        h, bl = min(ls, key=lambda x: len(x[1]))
        nxt = [s for s in body.calls() if s.bb in bl and callee_decl(callee_of(s)) == "core::iter::traits::iterator::Iterator::next"]
        nxt = [s for s in nxt if min([(hh, b2) for hh, b2 in loops if s.bb in b2], key=lambda x: len(x[1]))[0] == h]
        if len(nxt) != 1:
            return "OTHER"
        k = list_kind(prog, body, nxt[0].node["args"][0], list_params, depth + 1)
        if k not in ("FULL", "PARTIAL"):
            return "OTHER"
        # is the push met on every way round the loop?
        seen, st, skip = {h}, [h], False
        while st:
            x = st.pop()
            for sc in body.succ[x]:
                if sc == h:
                    skip = True
                elif sc in bl and sc != ps.bb and sc not in seen and not body.blocks[sc]["cleanup"]:
                    seen.add(sc)
                    st.append(sc)
        out.add("PARTIAL" if skip else k)
    if out == {"FULL"}:
        return "FULL"
    return "PARTIAL" if out <= {"FULL", "PARTIAL"} else "OTHER"


def _closure_capture_operand(prog, clo, field):
    """(parent body, operand) captured into field `field` of closure `clo` at its creation site"""
    par = prog.by_target[clo.target].get(clo.parent["direct"]) if clo.parent else None
    if par is None:
        return None, None
    for s in par.sites():
        n = s.node
        if s.si is not None and n["k"] == "assign" and n["rv"]["k"] == "aggregate" and n["rv"]["agg"].get("kind") == "closure" and n["rv"]["agg"].get("path") == clo.path:
            if field < len(n["rv"]["ops"]):
                return par, n["rv"]["ops"][field]
    return par, None


def _upvar_list_kind(prog, clo, field, list_params):
    par, op = _closure_capture_operand(prog, clo, field)
    if op is None:
        return "OTHER"
    fn = prog.enclosing_fn(par)
    return list_kind(prog, par, op, list_params if par is fn else set())


def literal(prog, body, op, list_params, depth=0):
    """descriptors of a single Literal operand"""
    out = []
    if depth > 10:
        return [Lit("UNKNOWN", None, note="depth")]
    k = op_const(op)
    if k is not None:
        return [Lit("VAR", None, note="const")]
    for o in origins(body, op, transparent=("core::clone::Clone::clone", "core::option::Option::unwrap", "core::option::Option::expect", "core::borrow::Borrow::borrow")):
        if o.kind == "call":
            c = o.data
            d = callee_decl(c)
            if callee_matches(c, r"sat::sat_solver::Literal::negate$"):
                out += [x.flip() for x in literal(prog, body, o.site.node["args"][0], list_params, depth + 1)]
            elif callee_matches(c, ARG_TO_LIT):
                out.append(Lit("ARG", True, site=o.site))
            elif callee_matches(c, r"^core::convert::From::from$|^core::convert::Into::into$") and o.site.body.local_ty(o.site.node["dst"]["l"]).endswith("sat::sat_solver::Literal"):
                out += _literal_from_int(prog, body, o.site.node["args"][0], o.site)
            elif o.fields and str(o.fields[-1]) == "selector":
                # the `selector` field of a state-data struct returned by a call
                out.append(Lit("SEL", True, site=o.site, note="state_data.selector"))
            else:
                tgt = prog.body_for_callee(c, body) if c.get("decl") != "<indirect>" else None
                if tgt is not None and tgt.ret_ty.endswith("sat::sat_solver::Literal"):
                    out += literal(prog, tgt, {"c": {"l": 0, "p": []}}, set(), depth + 1)
                else:
                    out.append(Lit("UNKNOWN", None, site=o.site, note="call " + d))
        elif o.kind == "agg" and o.data.get("variant") == "Some":
            out += literal(prog, body, o.site.node["rv"]["ops"][0], list_params, depth + 1)
        elif o.kind == "agg" and o.data.get("variant") == "None":
            continue
        elif o.kind == "param":
            # a field of a parameter struct (fn_data.selector) or the element parameter of a map closure
            if o.fields and str(o.fields[-1]) == "selector":
                out.append(Lit("SEL", True, note="param.selector"))
            else:
                out.append(Lit("PARAM", True, note="param#%s%s" % (o.data, "." + ".".join(str(f) for f in o.fields) if o.fields else "")))
        elif o.kind == "upvar":
            par, cop = _closure_capture_operand(prog, body, o.data)
            if cop is not None:
                out += literal(prog, par, cop, set(), depth + 1)
            else:
                out.append(Lit("UNKNOWN", None, note="upvar"))
        elif o.kind in ("undef", "partial"):
            continue
        else:
            out.append(Lit("UNKNOWN", None, site=o.site, note=o.kind))
    # fields of self: `self.selector`
    p = op_place(op)
    if not out and p is not None:
        out.append(Lit("UNKNOWN", None, note="no origin"))
    return _dedupe(out)


def _literal_from_int(prog, body, op, site):
    """Literal::from(<int expr>)"""
    out = []
    neg = False
    for o in origins(body, op, transparent=()):
        if o.kind == "unop" and o.data["op"] == "Neg":
            inner = _literal_from_int(prog, body, o.data["ops"][0], site)
            out += [x.flip() for x in inner]
            continue
        _, calls, _ = data_deps(body, op)
        if any(callee_matches(callee_of(c), r"sat_solver::SatSolver::n_vars$") for c in calls):
            # 1 + n_vars()
            out.append(Lit("SEL", True, site=site))
        else:
            out.append(Lit("VAR", True, site=site))
        break
    if not out:
        out.append(Lit("VAR", True, site=site))
    return out


def closure_result_literals(prog, clo, list_params_of_parent):
    """descriptors of the Literal returned by a map closure (Option<Literal> for filter_map)"""
    return literal(prog, clo, {"c": {"l": 0, "p": []}}, set())


def literals_of(prog, body, op, list_params, depth=0, _seen=None):
    """descriptors of the literals contained in a collection / iterator / slice operand"""
    if _seen is None:
        _seen = set()
    out = []
    if depth > 14:
        return [Lit("UNKNOWN", None, note="depth")]
    ty = None
    p = op_place(op)
    if p is not None and not p["p"]:
        ty = body.local_ty(p["l"])
        if ty.replace("&", "").strip() == "sat::sat_solver::Literal":
            return literal(prog, body, op, list_params, depth)
    roots = origins(body, op, transparent=ELEMENT_PRESERVING)
    if ty is not None and "Vec<sat::sat_solver::Literal>" in ty.replace(" ", ""):
        # `let mut cl = lits.collect::<Vec<_>>(); cl.push(x)`: what is pushed onto a collected vector afterwards
        held, _, _ = data_deps(body, op, through_calls=False)
        for cs_ in body.calls():
            if callee_decl(callee_of(cs_)) == "core::iter::traits::iterator::Iterator::collect" and cs_.node["dst"]["l"] in held and not cs_.node["dst"]["p"] and "Vec<sat::sat_solver::Literal>" in body.local_ty(cs_.node["dst"]["l"]).replace(" ", ""):
                k2 = (body.id, "collected", cs_.bb)
                if k2 not in _seen:
                    _seen.add(k2)
                    out += _pushed(prog, body, cs_.node["dst"]["l"], list_params, depth, _seen)
    for o in roots:
        key = (body.id, o.key())
        if key in _seen:
            continue
        _seen.add(key)
        if o.kind == "call":
            c = o.data
            d = callee_decl(c)
            args = o.site.node["args"]
            if d == "core::iter::traits::iterator::Iterator::chain":
                out += literals_of(prog, body, args[0], list_params, depth + 1, _seen)
                out += literals_of(prog, body, args[1], list_params, depth + 1, _seen)
            elif d == "core::iter::sources::once::once":
                out += literal(prog, body, args[0], list_params, depth + 1)
            elif d in MAPPING:
                lk = list_kind(prog, body, args[0], list_params)
                if d.endswith("filter_map") and lk == "FULL":
                    lk = "PARTIAL"
                clos = [prog.by_target[body.target].get(x) or prog.lib(x) for x in (c.get("fn_args") or [])]
                clos = [x for x in clos if x is not None]
                if not clos:
                    out.append(Lit("UNKNOWN", None, site=o.site, note="map without closure body"))
                for clo in clos:
                    if clo.ret_ty.endswith("sat::sat_solver::Literal") or "sat::sat_solver::Literal>" in clo.ret_ty:
                        for l in closure_result_literals(prog, clo, list_params):
                            out.append(l.as_many(lk))
                    else:
                        # mapping to something else first (e.g. to arguments): literals come later
                        out.append(Lit("UNKNOWN", None, site=o.site, note="map to " + clo.ret_ty))
            elif d in FILTERING:
                out += literals_of(prog, body, args[0], list_params, depth + 1, _seen)
            elif d == "alloc::boxed::box_assume_init_into_vec_unsafe":
                # vec![a, b, ..]
                for oo in origins(body, args[0], transparent=()):
                    if oo.kind == "call" and oo.site is not None:
                        for st in body.ptr_store_defs.get(oo.site.node["dst"]["l"], []):
                            rv = st.node["rv"]
                            if rv["k"] == "aggregate" and rv["agg"]["kind"] == "array":
                                for x in rv["ops"]:
                                    out += literal(prog, body, x, list_params, depth + 1)
            elif d in ("alloc::vec::Vec::new", "alloc::vec::Vec::with_capacity", "alloc::vec::from_elem"):
                out += _pushed(prog, body, o.site.node["dst"]["l"], list_params, depth, _seen)
            else:
                tgt = prog.body_for_callee(c, body) if c.get("decl") != "<indirect>" else None
                if tgt is not None and "sat::sat_solver::Literal" in tgt.ret_ty:
                    sub = literals_of(prog, tgt, {"c": {"l": 0, "p": list(_field_proj(o.fields))}}, set(), depth + 1, _seen)
                    # what the helper returns in terms of its parameters is what the caller handed over
                    sub2 = []
                    for l in sub:
                        mm = re.match(r"^param#(\d+)$", str(l.note or "")) if l.role == "PARAM" else None
                        if mm and tgt.kind != "closure" and int(mm.group(1)) - 1 < len(args):
                            a = args[int(mm.group(1)) - 1]
                            got = literals_of(prog, body, a, list_params, depth + 1, _seen) if (op_place(a) is not None or op_const(a) is not None) else []
                            if got:
                                sub2 += [g.flip() if l.pos is False else g for g in got]
                                continue
                        sub2.append(l)
                    out += sub2
                    # plus what this body pushes onto the returned vector afterwards
                    out += _pushed(prog, body, o.site.node["dst"]["l"], list_params, depth, _seen, fields=o.fields)
                elif c.get("decl") == "<indirect>" or callee_matches(c, r"ops::function::Fn(Mut|Once)?::call"):
                    out.append(Lit("UNKNOWN", None, site=o.site, note="indirect call"))
                else:
                    out.append(Lit("UNKNOWN", None, site=o.site, note="call " + d))
        elif o.kind == "agg":
            a = o.data
            if a["kind"] == "array":
                for x in o.site.node["rv"]["ops"]:
                    out += literal(prog, body, x, list_params, depth + 1)
            elif a["kind"] == "tuple":
                # (in_ext, not_in_ext): pick the component asked for
                out.append(Lit("UNKNOWN", None, site=o.site, note="tuple"))
            else:
                out.append(Lit("UNKNOWN", None, site=o.site, note="aggregate"))
        elif o.kind == "param":
            if o.fields and str(o.fields[-1]) == "selector":
                out.append(Lit("SEL", True, note="param.selector"))
            else:
                out.append(Lit("PARAM", None, note="param#%s" % o.data))
                if body.kind != "closure" and "Vec<sat::sat_solver::Literal>" in body.local_ty(o.data) and not o.fields:
                    # a vector parameter the body extends before handing it back
                    out += _pushed(prog, body, o.data, list_params, depth, _seen)
        elif o.kind == "upvar":
            par, cop = _closure_capture_operand(prog, body, o.data)
            if cop is not None:
                out += literals_of(prog, par, cop, set(), depth + 1, _seen)
            else:
                out.append(Lit("UNKNOWN", None, note="upvar"))
        elif o.kind == "const":
            continue
        elif o.kind in ("undef", "partial"):
            continue
        else:
            out.append(Lit("UNKNOWN", None, site=o.site, note=o.kind))
    return _dedupe(out)


def _field_proj(fields):
    for f in fields:
        yield {"f": int(f) if str(f).isdigit() else 0, "name": None if str(f).isdigit() else f, "owner": None, "ty": ""}


def _pushed(prog, body, local, list_params, depth, _seen, fields=()):
    """literals added to the vector held in `local` by push / append / extend calls of this body"""
    out = []
    # locals that alias the vector (moves of the whole value, tuple destructuring of a call result)
    aliases = {local}
    changed = True
    while changed:
        changed = False
        for s in body.sites():
            n = s.node
            if s.si is not None and n["k"] == "assign" and n["rv"]["k"] == "use" and not n["dst"]["p"]:
                q = op_place(n["rv"]["ops"][0])
                if q is not None and q["l"] in aliases and n["dst"]["l"] not in aliases:
                    # moving a tuple component out: only follow the component asked for
                    qf = tuple(str(x) for x in place_fields(q))
                    if q["l"] == local and fields and qf and qf != tuple(str(x) for x in fields):
                        continue
                    aliases.add(n["dst"]["l"])
                    changed = True
    for a in aliases:
        for s in body.mut_call_defs.get(a, []):
            d = callee_decl(callee_of(s))
            args = s.node["args"]
            if d == "alloc::vec::Vec::push":
                out += literal(prog, body, args[1], list_params, depth + 1)
            elif d in ("alloc::vec::Vec::append", "core::iter::traits::collect::Extend::extend", "alloc::vec::Vec::extend_from_slice"):
                # the source: the other argument
                p0 = op_place(args[0])
                src = args[1]
                out += literals_of(prog, body, src, list_params, depth + 1, _seen)
    # pushes done by closures capturing the vector by mutable reference
    for clo in prog.closures_of(body):
        for u in clo.upvars:
            par, cop = _closure_capture_operand(prog, clo, u["field"])
            if par is not body or cop is None:
                continue
            q = op_place(cop)
            if q is None:
                continue
            # &mut alias
            tgt = set()
            for oo in origins(body, cop, transparent=()):
                pass
            seen_l, _, _ = data_deps(body, cop, through_calls=False)
            if not (seen_l & aliases):
                continue
            # iteration space of the closure: for_each(src, closure) in the parent
            lk = "OTHER"
            for ps in body.calls():
                pc = callee_of(ps)
                if pc and clo.path in (pc.get("fn_args") or []) and callee_decl(pc) in ("core::iter::traits::iterator::Iterator::for_each", "core::iter::traits::iterator::Iterator::try_for_each"):
                    lk = list_kind(prog, body, ps.node["args"][0], list_params)
            for s in clo.calls():
                if callee_decl(callee_of(s)) == "alloc::vec::Vec::push":
                    if any(o.kind == "upvar" and o.data == u["field"] for o in origins(clo, s.node["args"][0], transparent=("core::ops::deref::DerefMut::deref_mut",))):
                        for l in literal(prog, clo, s.node["args"][1], set(), depth + 1):
                            out.append(l.as_many(lk))
    return out
