"""Value provenance as expression trees (flow-insensitive), across closures.

`prov(prog, body, operand)` returns the set of expressions an operand may hold:

    ('param', fn path, k, fields)       parameter k of a plain function (k = 1 is `self` for methods), with the field path read
    ('elem', X, where)                   an element yielded by iterating X: the Some-payload of `Iterator::next(X)`, or the element
                                         parameter of a closure handed to an adaptor (`for_each`, `map`, ...) whose receiver is X;
                                         `where` names the closure / the next() site, so that two nested iterations over equal
                                         ranges stay distinct
    ('field', X, f)                      field / tuple component f of X (for an enumerate() element: 0 = index, 1 = item)
    ('call', decl, (args..), closures)   result of a call; reference/view/conversion calls are looked through
    ('const', v) | ('agg', kind, (ops..)) | ('op', name, (ops..)) | ('?', why)

Looked-through calls keep the tree small: borrows, derefs, clones, `iter()`, `into_iter()`, `as_slice()`, unwrap.
The trees are compared structurally by the rules (tables that must agree, ids that must come from the element they index).
"""
from .core import callee_decl, callee_of, op_const, op_place, origins

_VIEW = (
    "core::ops::deref::Deref::deref",
    "core::ops::deref::DerefMut::deref_mut",
    "core::convert::AsRef::as_ref",
    "core::convert::AsMut::as_mut",
    "core::borrow::Borrow::borrow",
    "core::borrow::BorrowMut::borrow_mut",
    "core::clone::Clone::clone",
    "core::option::Option::unwrap",
    "core::option::Option::expect",
    "core::option::Option::as_ref",
    "core::option::Option::as_mut",
    "core::result::Result::unwrap",
    "core::result::Result::expect",
    "alloc::vec::Vec::as_slice",
    "alloc::vec::Vec::as_mut_slice",
    "core::iter::traits::collect::IntoIterator::into_iter",
    "core::slice::iter",
    "core::slice::iter_mut",
    "alloc::vec::Vec::iter",
    "core::hint::must_use",
    "core::iter::traits::iterator::Iterator::by_ref",
    "core::iter::traits::iterator::Iterator::cloned",
    "core::iter::traits::iterator::Iterator::copied",
)
_NEXT = "core::iter::traits::iterator::Iterator::next"
MAXD = 14


def _closures(prog, body, c):
    out = []
    for fa in c.get("fn_args") or []:
        cb = prog.by_target[body.target].get(fa) or prog.by_target["lib"].get(fa)
        if cb is not None:
            out.append(cb)
    return out


def _wrap_fields(e, fields):
    for f in fields:
        if e[0] == "param":
            e = ("param", e[1], e[2], e[3] + (str(f),))
        else:
            e = ("field", e, str(f))
    return e


def _parent_of(prog, clo):
    if not clo.parent:
        return None
    return prog.by_target[clo.target].get(clo.parent["direct"])


def _closure_param(prog, clo, k, depth):
    """expressions of parameter k (>= 2) of a closure: from its direct calls, or the element of the adaptor it is handed to"""
    par = _parent_of(prog, clo)
    if par is None:
        return {("?", "closure without parent")}
    out = set()
    for cs in par.calls():
        c = cs.node.get("callee")
        if c is None:
            continue
        if clo.path in (c.get("fn_args") or []):
            args = cs.node["args"]
            d = callee_decl(c)
            if args and op_place(args[0]) is not None:
                recv = prov(prog, par, args[0], depth + 1)
                # fold-like adaptors: (acc, element); everything else: (element)
                if d.endswith("Iterator::fold") or d.endswith("Iterator::try_fold"):
                    if k == 3:
                        out |= {("elem", r, clo.path) for r in recv}
                    else:
                        out.add(("?", "accumulator"))
                elif d.startswith("core::option::Option::") or d.startswith("core::result::Result::"):
                    out |= {("field", r, "0") for r in recv} if k == 2 else {("?", "closure parameter")}
                else:
                    out |= {("elem", r, clo.path) for r in recv} if k == 2 else {("?", "closure parameter")}
            else:
                out.add(("?", "adaptor without receiver"))
        elif prog.body_for_callee(c, par) is clo and len(cs.node["args"]) >= 2:
            # called directly: args = (closure, (tuple))
            for oo in origins(par, cs.node["args"][1], transparent=()):
                if oo.kind == "agg" and oo.data["kind"] == "tuple" and k - 2 < len(oo.site.node["rv"]["ops"]):
                    out |= prov(prog, par, oo.site.node["rv"]["ops"][k - 2], depth + 1)
    return out or {("?", "closure never used")}


_active = []
_INLINE = False


class inlining:
    """`with prov.inlining():` - calls of *private* functions that only read their parameters (a getter such as `fn n_slots(&self) ->
    usize { self.labels.len() }`) are replaced by the expression they return, with the arguments substituted"""

    def __enter__(self):
        global _INLINE
        self.old = _INLINE
        _INLINE = True
        return self

    def __exit__(self, *a):
        global _INLINE
        _INLINE = self.old
        return False


def _subst_params(e, fn_path, args):
    if not isinstance(e, tuple):
        return e
    if e[0] == "param" and e[1] == fn_path:
        if e[2] - 1 < len(args):
            return _wrap_fields(args[e[2] - 1], e[3])
        return e
    if e[0] == "elem":
        return ("elem", _subst_params(e[1], fn_path, args), e[2])
    if e[0] == "field":
        return ("field", _subst_params(e[1], fn_path, args), e[2])
    if e[0] == "call":
        return ("call", e[1], tuple(_subst_params(a, fn_path, args) for a in e[2]), e[3])
    if e[0] in ("agg", "op"):
        return (e[0], e[1], tuple(_subst_params(a, fn_path, args) for a in e[2]))
    if e[0] == "alt":
        return ("alt", tuple(_subst_params(a, fn_path, args) for a in e[1]))
    return e


_getter_cache = {}


def _inline_getter(prog, body, c, aexprs, depth):
    tgt = prog.body_for_callee(c, body) if c.get("decl") != "<indirect>" else None
    if tgt is None or tgt.kind == "closure" or not str(tgt.vis or "").startswith("in:") or tgt.n_args > 3 or depth > MAXD - 3:
        return None
    key = tgt.id
    if key not in _getter_cache:
        _getter_cache[key] = None
        local_calls = [s for s in tgt.calls() if (callee_of(s) or {}).get("crate") == "crustabri"]
        if not local_calls and len(tgt.reachable) <= 6 and not tgt.loops():
            trees = prov(prog, tgt, {"l": 0, "p": []}, depth + 1)
            if trees and all(len(subterms(t)) <= 8 and not any(l[0] in ("?", "var") for l in leaves(t)) for t in trees):
                _getter_cache[key] = trees
    trees = _getter_cache[key]
    if trees is None:
        return None
    return {_subst_params(t, tgt.path, aexprs) for t in trees}


def _const_tree(k):
    """a constant operand as a tree; `&Some(false)` (a promoted variant with a scalar payload) as an aggregate"""
    if "payload" in k and "variant" in k:
        pl = k["payload"]
        return ("agg", k["variant"], (("const", pl.get("int", pl.get("bool"))),))
    return ("const", k.get("int", k.get("bool", k.get("str", k.get("ty")))))


def prov(prog, body, place_or_op, depth=0):
    if depth > MAXD:
        return {("?", "depth")}
    if "l" not in place_or_op:
        k = op_const(place_or_op)
        if k is not None:
            return {_const_tree(k)}
    # a local that (transitively) depends on itself - a loop-carried counter - is named, not unrolled
    p0 = place_or_op if "l" in place_or_op else op_place(place_or_op)
    key = (body.id, p0["l"], repr(p0["p"])) if p0 is not None else None
    if key is not None and key in _active:
        return {("var", body.path, body.local_name(p0["l"]) or "_%d" % p0["l"])}
    _active.append(key)
    try:
        return _prov(prog, body, place_or_op, depth)
    finally:
        _active.pop()


def _prov(prog, body, place_or_op, depth):
    out = set()
    for o in origins(body, place_or_op, transparent=_VIEW, index_origins=True):
        flds = [f for f in o.fields]
        if o.kind == "index":
            bs = prov(prog, body, o.data["base"], depth + 1)
            if o.data.get("idx") is not None:
                ix = prov(prog, body, {"l": o.data["idx"], "p": []}, depth + 1)
            else:
                ix = {("const", o.data.get("cidx"))}
            one = lambda es: sorted(es, key=repr)[0] if len(es) == 1 else ("alt", tuple(sorted(es, key=repr)))  # noqa: E731
            out.add(_wrap_fields(("call", "core::ops::index::Index::index", (one(bs), one(ix)), ()), flds))
        elif o.kind == "const":
            out.add(_wrap_fields(_const_tree(o.data), flds) if "payload" in o.data else _const_tree(o.data))
        elif o.kind == "param":
            if body.kind == "closure":
                for e in _closure_param(prog, body, o.data, depth):
                    out.add(_wrap_fields(e, flds))
            else:
                out.add(("param", body.path, o.data, tuple(str(f) for f in flds)))
        elif o.kind == "upvar":
            from .tags import _closure_capture_operand

            par, cap = _closure_capture_operand(prog, body, o.data)
            q = op_place(cap) if cap is not None else None
            if q is None:
                out.add(("?", "capture"))
                continue
            ds = par.defs.get(q["l"], [])
            if not q["p"] and len(ds) == 1 and ds[0].si is not None and ds[0].node["k"] == "assign" and ds[0].node["rv"]["k"] == "ref":
                q = ds[0].node["rv"]["place"]
            for e in prov(prog, par, {"l": q["l"], "p": list(q["p"])}, depth + 1):
                out.add(_wrap_fields(e, flds))
        elif o.kind == "call":
            d = callee_decl(o.data)
            args = o.site.node["args"]
            if d == _NEXT and args:
                # Some-payload of next(): fields start with the Option payload
                rest = flds[1:] if flds and str(flds[0]) == "0" else flds
                for r in prov(prog, body, args[0], depth + 1):
                    out.add(_wrap_fields(("elem", r, "%s@bb%d" % (body.path, o.site.bb)), rest))
                continue
            aexprs = []
            for a in args[:4]:
                if op_place(a) is None and op_const(a) is None:
                    aexprs.append(("?", "arg"))
                    continue
                es = prov(prog, body, a, depth + 1)
                aexprs.append(sorted(es, key=repr)[0] if len(es) == 1 else ("alt", tuple(sorted(es, key=repr))))
            clos = tuple(c.path for c in _closures(prog, body, o.data))
            inl = _inline_getter(prog, body, o.data, aexprs, depth) if _INLINE else None
            if inl is not None:
                for x in inl:
                    out.add(_wrap_fields(x, flds))
            else:
                out.add(_wrap_fields(("call", d, tuple(aexprs), clos), flds))
        elif o.kind == "agg":
            ops = o.site.node["rv"]["ops"]
            kind = o.data.get("variant") or o.data.get("kind")
            sub = []
            for x in ops[:6]:
                es = prov(prog, body, x, depth + 1) if (op_place(x) is not None or op_const(x) is not None) else {("?", "op")}
                sub.append(sorted(es, key=repr)[0] if len(es) == 1 else ("alt", tuple(sorted(es, key=repr))))
            out.add(_wrap_fields(("agg", kind, tuple(sub)), flds))
        elif o.kind in ("binop", "unop"):
            sub = []
            for x in o.data["ops"]:
                es = prov(prog, body, x, depth + 1)
                sub.append(sorted(es, key=repr)[0] if len(es) == 1 else ("alt", tuple(sorted(es, key=repr))))
            out.add(_wrap_fields(("op", o.data["op"], tuple(sub)), flds))
        elif o.kind in ("undef", "partial"):
            continue
        else:
            out.add(("?", o.kind))
    return out or {("?", "no origin")}


def leaves(e):
    """parameters / unknowns / constants at the leaves of an expression"""
    out = set()
    if not isinstance(e, tuple):
        return out
    if e[0] in ("param", "?", "const", "var"):
        out.add(e)
    elif e[0] == "elem":
        out |= leaves(e[1])
    elif e[0] == "field":
        out |= leaves(e[1])
    elif e[0] == "call":
        for a in e[2]:
            out |= leaves(a)
    elif e[0] in ("agg", "op"):
        for a in e[2]:
            out |= leaves(a)
    elif e[0] == "alt":
        for a in e[1]:
            out |= leaves(a)
    return out


def subterms(e):
    out = [e]
    if not isinstance(e, tuple):
        return out
    if e[0] in ("elem",):
        out += subterms(e[1])
    elif e[0] == "field":
        out += subterms(e[1])
    elif e[0] == "call":
        for a in e[2]:
            out += subterms(a)
    elif e[0] in ("agg", "op"):
        for a in e[2]:
            out += subterms(a)
    elif e[0] == "alt":
        for a in e[1]:
            out += subterms(a)
    return out


def show(e, depth=0):
    if not isinstance(e, tuple):
        return str(e)
    if e[0] == "param":
        return "%s#%d%s" % (e[1].rsplit("::", 1)[-1], e[2], "".join("." + f for f in e[3]))
    if e[0] == "elem":
        return "each(%s)" % show(e[1])
    if e[0] == "field":
        return "%s.%s" % (show(e[1]), e[2])
    if e[0] == "call":
        return "%s(%s)" % (e[1].rsplit("::", 1)[-1], ", ".join(show(a) for a in e[2]))
    if e[0] == "const":
        return repr(e[1])
    if e[0] == "var":
        return "<%s>" % e[2]
    if e[0] in ("agg", "op"):
        return "%s[%s]" % (e[1], ", ".join(show(a) for a in e[2]))
    if e[0] == "alt":
        return " | ".join(show(a) for a in e[1])
    return "?%s" % (e[1],)


def roots(prog, body, place_or_op, depth=0):
    """identity of the object(s) an operand may denote: the creation sites ('site', body id, bb) of call / aggregate origins
    (two `vec![false; n]` have equal provenance trees but different roots), ('param', fn, k) for parameters; closures' captures are
    followed to the enclosing function, references and views are looked through"""
    out = set()
    if depth > MAXD:
        return {("?", "depth")}
    for o in origins(body, place_or_op, transparent=_VIEW):
        if o.kind == "upvar":
            from .tags import _closure_capture_operand

            par, cap = _closure_capture_operand(prog, body, o.data)
            q = op_place(cap) if cap is not None else None
            if q is None:
                out.add(("?", "capture"))
                continue
            ds = par.defs.get(q["l"], [])
            if not q["p"] and len(ds) == 1 and ds[0].si is not None and ds[0].node["k"] == "assign" and ds[0].node["rv"]["k"] == "ref":
                q = ds[0].node["rv"]["place"]
            out |= roots(prog, par, {"l": q["l"], "p": list(q["p"])}, depth + 1)
        elif o.kind == "param":
            if body.kind == "closure":
                out.add(("?", "closure parameter"))
            else:
                out.add(("param", body.path, o.data) + tuple(str(f) for f in o.fields))
        elif o.kind in ("call", "agg"):
            out.add(("site", body.id, o.site.bb, o.site.si))
        elif o.kind in ("undef", "partial"):
            continue
        else:
            out.add(("?", o.kind))
    return out


def expand_params(prog, e, depth=2, _seen=None):
    """the alternatives of a tree after replacing each parameter leaf of a (non-closure) function by what its callers pass:
    a value handed to a private helper is judged as the expression the caller computed.  Returns a set of trees (the tree itself when
    a parameter has no caller); depth bounds the number of call levels climbed."""
    if depth <= 0 or not isinstance(e, tuple):
        return {e}
    if e[0] == "param":
        fn = prog.lib(e[1]) if hasattr(prog, "lib") else None
        if fn is None or fn.kind == "closure":
            return {e}
        cs = [c for c in prog.callers_of(fn)]
        if not cs:
            return {e}
        out = set()
        for c in cs:
            args = c.node.get("args") or []
            if e[2] - 1 >= len(args):
                return {e}
            for a in prov(prog, c.body, args[e[2] - 1]):
                a2 = _wrap_fields(a, e[3])
                out |= expand_params(prog, a2, depth - 1)
        return out or {e}
    if e[0] in ("elem",):
        return {(e[0], x, e[2]) for x in expand_params(prog, e[1], depth)}
    if e[0] == "field":
        return {("field", x, e[2]) for x in expand_params(prog, e[1], depth)}
    if e[0] == "call":
        import itertools

        alts = [sorted(expand_params(prog, a, depth), key=repr) for a in e[2]]
        if any(len(a) > 3 for a in alts):
            return {e}
        return {("call", e[1], tuple(c), e[3]) for c in itertools.product(*alts)}
    if e[0] in ("agg", "op"):
        import itertools

        alts = [sorted(expand_params(prog, a, depth), key=repr) for a in e[2]]
        if any(len(a) > 3 for a in alts):
            return {e}
        return {(e[0], e[1], tuple(c)) for c in itertools.product(*alts)}
    if e[0] == "alt":
        out = set()
        for a in e[1]:
            out |= expand_params(prog, a, depth)
        return out
    return {e}
