"""F1: who-may-mutate census for a field of a local ADT (operation tables)."""
from .core import Site, callee_of, callee_name, strip_generics, op_place, origins, place_fields
from .flow import consumers


class Use:
    __slots__ = ("site", "op", "mut", "fn", "detail")

    def __init__(self, site, op, mut, fn, detail=None):
        self.site = site
        self.op = op  # 'store', 'store-elem', callee short name, 'borrow', ...
        self.mut = mut
        self.fn = fn  # enclosing fn/method Body
        self.detail = detail

    def __repr__(self):
        return "<%s %s in %s at %s>" % ("mut" if self.mut else "use", self.op, self.fn.path, self.site.loc())


def _field_positions(place, owner, field):
    """indices in place['p'] where .field of ADT `owner` is projected"""
    out = []
    for i, e in enumerate(place["p"]):
        if isinstance(e, dict) and "f" in e and e.get("owner") == owner and e.get("name") == field:
            out.append(i)
    return out


def _short(c):
    if c is None:
        return "<indirect>"
    # trait methods by their declaration (IndexMut::index_mut), inherent ones by definition path
    return strip_generics(c["decl"])


def _stored_variant(body, rv):
    """':Variant' when the stored value is (a move of) an enum aggregate"""
    if rv["k"] == "aggregate" and rv["agg"].get("variant"):
        return ":" + rv["agg"]["variant"]
    if rv["k"] == "use":
        vs = {o.data.get("variant") for o in origins(body, rv["ops"][0], transparent=()) if o.kind == "agg" and o.data.get("variant")}
        os_ = origins(body, rv["ops"][0], transparent=())
        if vs and all(o.kind == "agg" for o in os_) and len(vs) == 1:
            return ":" + vs.pop()
    return ""


def _array_loop_elements(body, arr):
    """[(element local, next() site)] of `for x in <array local>`: the locals that receive the Some-payload of next() on the array's
    by-value iterator"""
    from .core import callee_decl

    out = []
    for s in body.calls():
        if not (callee_decl(callee_of(s)) or "").endswith("into_iter") or not s.node["args"]:
            continue
        q = op_place(s.node["args"][0])
        if q is None or q["l"] != arr or q["p"]:
            continue
        it = s.node["dst"]["l"]
        its = {it}
        for st in body.sites():
            n = st.node
            if st.si is not None and n["k"] == "assign" and n["rv"]["k"] == "use" and not n["dst"]["p"]:
                p2 = op_place(n["rv"]["ops"][0])
                if p2 is not None and p2["l"] in its and not p2["p"]:
                    its.add(n["dst"]["l"])
        for s2 in body.calls():
            if callee_decl(callee_of(s2)) != "core::iter::traits::iterator::Iterator::next" or not s2.node["args"]:
                continue
            # the receiver is a (re)borrow of the iterator
            l = op_place(s2.node["args"][0])["l"] if op_place(s2.node["args"][0]) is not None else None
            for _ in range(6):
                if l is None or l in its:
                    break
                ds = [d for d in body.defs.get(l, []) if d.si is not None and d.node["k"] == "assign"]
                if len(ds) != 1:
                    l = None
                    break
                rv = ds[0].node["rv"]
                if rv["k"] == "ref":
                    l = rv["place"]["l"]
                elif rv["k"] == "use" and op_place(rv["ops"][0]) is not None:
                    l = op_place(rv["ops"][0])["l"]
                else:
                    l = None
            if l is None or l not in its:
                continue
            res = s2.node["dst"]["l"]
            for st in body.sites():
                n = st.node
                if st.si is not None and n["k"] == "assign" and n["rv"]["k"] == "use" and not n["dst"]["p"]:
                    p2 = op_place(n["rv"]["ops"][0])
                    if p2 is not None and p2["l"] == res and p2["p"]:
                        out.append((n["dst"]["l"], s2))
    return out


def _classify_borrow(body, local, fn, site, out, mutable):
    """the borrow held in `local`: where does it go"""
    cs = consumers(body, local, follow_refs=True)
    has_store = any(s2.si is not None and s2.node["k"] == "assign" and s2.node["dst"]["l"] == local and s2.node["dst"]["p"] and s2.node["dst"]["p"][0] == "*" for s2 in body.sites())
    if not cs and not has_store:
        out.append(Use(site, "borrow-unused", mutable, fn))
    for c in cs:
        if c.kind == "call":
            nm = _short(c.info[0])
            if nm in ("core::ops::deref::DerefMut::deref_mut", "core::ops::deref::Deref::deref", "alloc::vec::Vec::as_mut_slice", "alloc::vec::Vec::as_slice", "core::ops::index::IndexMut::index_mut", "core::ops::index::Index::index", "core::slice::iter_mut", "core::slice::iter", "core::option::Option::as_mut", "core::option::Option::as_ref") and c.info[1] == 0:
                # the result is again a reference into the field: follow it, remember the step
                sub = []
                _classify_borrow(body, c.site.node["dst"]["l"], fn, c.site, sub, mutable and nm not in ("core::ops::deref::Deref::deref", "alloc::vec::Vec::as_slice", "core::ops::index::Index::index", "core::slice::iter", "core::option::Option::as_ref"))
                step = nm.rsplit("::", 1)[-1]
                for u in sub:
                    u.op = step + ">" + u.op
                    out.append(u)
            else:
                out.append(Use(c.site, nm, mutable, fn, detail="arg#%d" % c.info[1]))
        elif c.kind == "store":
            info = c.info
            if isinstance(info, tuple) and info[0] == "aggregate" and info[1].get("kind") == "closure":
                out.append(Use(c.site, "captured", False, fn, detail=info[1].get("path")))
            elif isinstance(info, tuple) and info[0] == "aggregate" and info[1].get("kind") == "array" and _array_loop_elements(body, c.site.node["dst"]["l"]):
                # `for r in [&mut self.a, &mut self.b] { r.push(..) }`: the borrow is what the loop element is
                for el, nsite in _array_loop_elements(body, c.site.node["dst"]["l"]):
                    _classify_borrow(body, el, fn, nsite, out, mutable)
            else:
                out.append(Use(c.site, "escapes", mutable, fn))
        elif c.kind == "return":
            out.append(Use(c.site, "returned", mutable, fn))
        elif c.kind == "match":
            out.append(Use(c.site, "match", False, fn))
        elif c.kind == "field":
            out.append(Use(c.site, "read-field", False, fn))
        else:
            out.append(Use(c.site, c.kind, mutable, fn))
    # stores through the reference:  (*local) = v   /  (*local)[i] = v
    for s in body.sites():
        n = s.node
        if s.si is not None and n["k"] == "assign":
            d = n["dst"]
            if d["l"] == local and d["p"] and d["p"][0] == "*":
                out.append(Use(s, "store-through" + _stored_variant(body, n["rv"]), True, fn))


def field_uses(prog, owner, field, bodies=None):
    """all uses of `owner.field` in the lib: direct places, borrows (followed to their consuming
    call), and by-reference captures in closures of the owner's methods"""
    out = []
    bodies = bodies if bodies is not None else prog.lib_bodies()
    for b in bodies:
        fn = prog.enclosing_fn(b) or b
        for s in b.sites():
            n = s.node
            if s.si is not None and n["k"] == "assign":
                d = n["dst"]
                pos = _field_positions(d, owner, field)
                if pos:
                    rest = d["p"][pos[-1] + 1 :]
                    rv = n["rv"]
                    desc = ("store" if not rest else "store-elem") + _stored_variant(b, rv)
                    out.append(Use(s, desc, True, fn))
                rv = n["rv"]
                if rv["k"] in ("ref", "rawptr"):
                    pos = _field_positions(rv["place"], owner, field)
                    if pos:
                        _classify_borrow(b, d["l"], fn, s, out, bool(rv.get("mut")))
                elif rv["k"] == "aggregate" and rv["agg"]["kind"] == "adt" and rv["agg"]["path"] == owner:
                    fns = rv["agg"].get("field_names") or []
                    if field in fns:
                        out.append(Use(s, "init", True, fn))
                else:
                    for o in rv.get("ops", []):
                        p = op_place(o)
                        if p is not None and _field_positions(p, owner, field):
                            kind = "move-out" if "m" in o else "read"
                            out.append(Use(s, kind, "m" in o, fn))
                    if rv["k"] == "discr" and _field_positions(rv["place"], owner, field):
                        out.append(Use(s, "match", False, fn))
            elif s.si is None and n["k"] == "call":
                for i, a in enumerate(n["args"]):
                    p = op_place(a)
                    if p is not None and _field_positions(p, owner, field):
                        out.append(Use(s, _short(n.get("callee")), "m" in a, fn, detail="by-value arg#%d" % i))
        # captured by reference in a closure of one of the owner's methods
        if b.kind == "closure" and fn.impl and fn.impl.get("self_adt") == owner:
            for u in b.upvars:
                nm = u["name"].lstrip("*")
                if nm == "self." + field or nm.startswith("self." + field + "."):
                    # uses of the upvar inside the closure
                    for s in b.sites():
                        n = s.node
                        if s.si is None or n["k"] != "assign":
                            continue
                        rv = n["rv"]
                        # tmp = copy (*_1).k   then  &mut (*tmp)  /  (*tmp) = v
                        if rv["k"] == "ref":
                            for o in origins(b, {"l": rv["place"]["l"], "p": []}, transparent=()):
                                if o.kind == "upvar" and o.data == u["field"] and not o.fields:
                                    if rv["place"]["p"] and rv["place"]["p"][0] == "*" or rv["place"]["l"] == 1:
                                        _classify_borrow(b, n["dst"]["l"], fn, s, out, bool(rv.get("mut")))
                        d = n["dst"]
                        if d["p"] and d["p"][0] == "*":
                            for o in origins(b, {"l": d["l"], "p": []}, transparent=()):
                                if o.kind == "upvar" and o.data == u["field"] and not o.fields:
                                    out.append(Use(s, "store" if len(d["p"]) == 1 else "store-elem", True, fn))
    # dedupe
    seen = set()
    res = []
    for u in out:
        k = (u.site.body.id, u.site.bb, u.site.si, u.op)
        if k not in seen:
            seen.add(k)
            res.append(u)
    return res


def find_fields(prog, type_regex):
    """(adt path, field name, type) of every field of a lib ADT whose type matches"""
    import re

    r = re.compile(type_regex)
    out = []
    for path, a in sorted(prog.adts.items()):
        for v in a["variants"]:
            for f in v["fields"]:
                if r.search(f["ty"]):
                    out.append((path, f["name"], f["ty"]))
    return out
