"""Compile-fail witnesses (type-level clauses): cargo +nightly test --doc on /verif/witness."""
import os
import re
import shutil
import subprocess

from . import engine

EXPECT = {
    "W1": ("compile_fail", 1, 1),
    "W1b": ("compile_fail", 1, 1),
    "W2": ("compile_fail", 1, 1),
    "W2b": ("compile_fail", 1, 1),
    "W3": ("compile_fail", 1, 1),
}


def run(ctx, ids):
    r = ctx.rule(
        "type-witness",
        "compile_fail,E0xxx doc-tests: the offending program is rejected by rustc with the expected error code, and its twin (same program "
        "without the offending line) compiles - nothing is executed",
    )
    src = os.path.join(engine.VERIF, "witness")
    work = os.path.join(engine.CACHE, "witness-work")
    shutil.rmtree(work, ignore_errors=True)
    os.makedirs(os.path.join(work, "src"))
    with open(os.path.join(src, "Cargo.toml.in")) as f:
        toml = f.read().replace("@REPO@", engine.REPO)
    with open(os.path.join(work, "Cargo.toml"), "w") as f:
        f.write(toml)
    shutil.copy(os.path.join(src, "src", "lib.rs"), os.path.join(work, "src", "lib.rs"))
    shutil.copy(os.path.join(engine.REPO, "Cargo.lock"), os.path.join(work, "Cargo.lock"))
    env = dict(os.environ)
    env["CARGO_NET_OFFLINE"] = "true"
    env["CARGO_TARGET_DIR"] = os.path.join(engine.CACHE, "witness-target")
    p = subprocess.run(["cargo", "+nightly", "test", "--doc", "--offline"], cwd=work, env=env, stdout=subprocess.PIPE, stderr=subprocess.STDOUT)
    out = p.stdout.decode(errors="replace")
    shutil.rmtree(work, ignore_errors=True)
    results = {}
    for m in re.finditer(r"^test src/lib.rs - (\w+) \(line (\d+)\)( - compile fail| - compile)? \.\.\. (\w+)", out, re.M):
        results.setdefault(m.group(1), []).append((m.group(3) or "", m.group(4)))
    for w in ids:
        res = results.get(w, [])
        cf = [x for x in res if "compile fail" in x[0]]
        tw = [x for x in res if "compile fail" not in x[0]]
        ok = len(cf) >= 1 and all(x[1] == "ok" for x in cf) and len(tw) >= 1 and all(x[1] == "ok" for x in tw)
        r.check(ok, w, "witness-failed:%s" % res, "witness %s rejected with its error code, twin compiles" % w, "witness %s: %s (the type system no longer enforces this clause, or the public API moved)" % (w, res or out[-800:]))
    return "Type-level witnesses %s checked with cargo +nightly test --doc." % ",".join(ids)
