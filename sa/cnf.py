"""Static extraction of *clause templates* from the encoder functions.

A template describes one `add_clause` site symbolically:
    lits   list of (sign, KIND, NODE, many)   sign in '+','-','?'
    per    'arg' (once per encoded argument) | 'attacker' (once per attacker of NODE)
    guard  textual guard facts (e.g. 'self-attack', 'not-self-attack')
KIND: a variable family - ('fn', path) a local pure function usize -> usize applied to the id of NODE,
      ('fn2', path) a function (n, id) -> usize, ('dyn', key) an indirect call through a `&dyn Fn`
      parameter, ('ivar', key) an integer parameter holding a variable, ('plus1', KIND), ('unk', why)
NODE: ('lab', k) the Label parameter k of the function, ('attacker', NODE), ('unk',)
Function summaries are instantiated along the call chain from each encoder entry point, replacing
parameters by the actual arguments (function items, closures, integer expressions, labels).
"""
import re
from .core import callee_of, callee_decl, callee_matches, callee_name, strip_generics, op_place, op_const, origins, data_deps, place_fields
from .flow import conditions
from . import tags

MAX_DEPTH = 8


def _flip(s):
    return {"+": "-", "-": "+"}.get(s, "?")


class Ctx:
    def __init__(self, prog):
        self.prog = prog
        self.sum_cache = {}
        # {body id: blocks not to be considered} - used to follow one arm of a match on the encoder's mode
        self.excluded = {}

    def skip(self, body, bb):
        return bb in self.excluded.get(body.id, ())

    def live_closures(self, fn):
        """fn and its closures, without the closures created in excluded blocks"""
        out = [fn]
        for clo in self.prog.closures_of(fn):
            par = self.prog.by_target[clo.target].get(clo.parent["direct"]) if clo.parent else None
            dead = False
            x = clo
            # walk up: a closure is dead when it (or an enclosing closure) is created in an excluded block
            while x is not None and x.kind == "closure":
                par = self.prog.by_target[x.target].get(x.parent["direct"]) if x.parent else None
                if par is None:
                    break
                for s in par.sites():
                    n = s.node
                    if s.si is not None and n["k"] == "assign" and n["rv"]["k"] == "aggregate" and n["rv"]["agg"].get("kind") == "closure" and n["rv"]["agg"].get("path") == x.path:
                        if self.skip(par, s.bb):
                            dead = True
                x = par
            if not dead:
                out.append(clo)
        return out


# ------------------------------------------------------------------------------------------
# nodes


def node_of_label(cx, body, op, depth=0):
    """which argument a `&Label<T>` operand denotes"""
    if depth > 6:
        return ("unk",)
    res = set()
    for o in origins(body, op, transparent=("core::clone::Clone::clone",)):
        if o.kind == "param":
            ty = body.local_ty(o.data)
            if body.kind == "closure" and o.data == 2:
                # the element of the iteration this closure runs in
                res.add(_closure_elem_node(cx, body, o.fields))
            elif "Label<" in ty:
                res.add(("lab", o.data))
            else:
                res.add(("unk",))
        elif o.kind == "call":
            d = callee_decl(o.data)
            if d == "aa::aa_framework::Attack::attacker":
                base = _attack_node(cx, body, o.site.node["args"][0], depth + 1)
                res.add(("attacker", base))
            elif d == "aa::aa_framework::Attack::attacked":
                res.add(_attack_node(cx, body, o.site.node["args"][0], depth + 1))
            elif d in ("aa::arguments::ArgumentSet::get_argument_by_id",):
                res.add(("byid", _id_desc(cx, body, o.site.node["args"][1])))
            elif d == "core::iter::traits::iterator::Iterator::next":
                # `for arg in af.argument_set().iter()`
                _, calls, _ = data_deps(body, o.site.node["args"][0])
                if any(callee_matches(callee_of(c), r"ArgumentSet::iter$") for c in calls):
                    res.add(("each-arg",))
                else:
                    res.add(("unk",))
            else:
                res.add(("unk",))
        elif o.kind == "upvar":
            par, cop = tags._closure_capture_operand(cx.prog, body, o.data)
            if cop is not None:
                res.add(node_of_label(cx, par, cop, depth + 1))
            else:
                res.add(("unk",))
        else:
            res.add(("unk",))
    if len(res) == 1:
        return next(iter(res))
    return ("unk",)


def _id_desc(cx, body, op):
    k = op_const(op)
    if k is not None and "int" in k:
        return "const%d" % k["int"]
    return "expr"


def _attack_node(cx, body, op, depth):
    """for an `&Attack` operand: the node X such that the attack comes from iter_attacks_to(X)"""
    for o in origins(body, op):
        if o.kind == "param" and body.kind == "closure" and o.data == 2:
            return _closure_iter_target(cx, body)
        if o.kind == "call" and callee_decl(o.data) in ("core::iter::traits::iterator::Iterator::next",):
            # `for att in af.iter_attacks_to(x)`
            _, calls, _ = data_deps(body, o.site.node["args"][0])
            for c in calls:
                if callee_matches(callee_of(c), r"AAFramework::iter_attacks_to$"):
                    return node_of_label(cx, body, c.node["args"][1], depth + 1)
        if o.kind == "upvar":
            par, cop = tags._closure_capture_operand(cx.prog, body, o.data)
            if cop is not None:
                return _attack_node(cx, par, cop, depth + 1)
    return ("unk",)


def _closure_iter_target(cx, clo):
    """the node X when closure `clo` is the body of iter_attacks_to(X).for_each/map/..."""
    par = cx.prog.by_target[clo.target].get(clo.parent["direct"]) if clo.parent else None
    if par is None:
        return ("unk",)
    for s in par.calls():
        c = callee_of(s)
        if c and clo.path in (c.get("fn_args") or []):
            _, calls, _ = data_deps(par, s.node["args"][0])
            for cc in [s] + calls:
                if callee_matches(callee_of(cc), r"AAFramework::iter_attacks_to$"):
                    return node_of_label(cx, par, cc.node["args"][1])
            # iteration over argument_set().iter(): the encoded argument itself
            for cc in calls:
                if callee_matches(callee_of(cc), r"ArgumentSet::iter$"):
                    return ("each-arg",)
    return ("unk",)


def _closure_elem_node(cx, clo, fields):
    """node denoted by the element parameter of a closure iterating arguments"""
    par = cx.prog.by_target[clo.target].get(clo.parent["direct"]) if clo.parent else None
    if par is None:
        return ("unk",)
    for s in par.calls():
        c = callee_of(s)
        if c and clo.path in (c.get("fn_args") or []):
            _, calls, _ = data_deps(par, s.node["args"][0])
            for cc in calls:
                if callee_matches(callee_of(cc), r"ArgumentSet::iter$"):
                    return ("each-arg",)
    return ("unk",)


def node_of_id(cx, body, op, depth=0):
    """node whose id an integer operand is"""
    res = set()
    for o in origins(body, op, transparent=()):
        if o.kind == "call" and callee_decl(o.data) == "utils::label::Label::id":
            res.add(node_of_label(cx, body, o.site.node["args"][0], depth + 1))
        elif o.kind == "upvar":
            par, cop = tags._closure_capture_operand(cx.prog, body, o.data)
            res.add(node_of_id(cx, par, cop, depth + 1) if cop is not None else ("unk",))
        elif o.kind == "param":
            res.add(("idparam", o.data))
        elif o.kind == "call" and callee_decl(o.data) == "core::iter::traits::iterator::Iterator::next":
            # an element of a slice / vector of ids held in a parameter: `for id in ids.iter()`
            src = set()
            for oo in origins(body, o.site.node["args"][0], transparent=tags.ELEMENT_PRESERVING):
                src.add(("idelem", oo.data) if oo.kind == "param" else ("unk",))
            res.add(next(iter(src)) if len(src) == 1 else ("unk",))
        else:
            res.add(("unk",))
    return next(iter(res)) if len(res) == 1 else ("unk",)


# ------------------------------------------------------------------------------------------
# variables and literals


def var_of_int(cx, body, op, depth=0):
    """(sign, KIND, NODE) descriptions of an integer operand used as a literal"""
    if depth > MAX_DEPTH:
        return [("?", ("unk", "depth"), ("unk",))]
    k = op_const(op)
    if k is not None:
        return [("?", ("unk", "const"), ("unk",))]
    out = []
    for o in origins(body, op, transparent=()):
        if o.kind == "unop" and o.data["op"] == "Neg":
            out += [(_flip(s), kd, nd) for s, kd, nd in var_of_int(cx, body, o.data["ops"][0], depth + 1)]
        elif o.kind == "binop" and o.data["op"] in ("Add", "AddWithOverflow"):
            a, b = o.data["ops"]
            ka, kb = op_const(a), op_const(b)
            if ka is not None and ka.get("int") == 1:
                out += [(s, ("plus1", kd), nd) for s, kd, nd in var_of_int(cx, body, b, depth + 1)]
            elif kb is not None and kb.get("int") == 1:
                out += [(s, ("plus1", kd), nd) for s, kd, nd in var_of_int(cx, body, a, depth + 1)]
            else:
                out.append(("+", ("unk", "sum"), ("unk",)))
        elif o.kind == "call":
            c = o.data
            d = callee_decl(c)
            args = o.site.node["args"]
            if d in ("core::ops::function::Fn::call", "core::ops::function::FnMut::call_mut") and len(args) == 2:
                key = _fn_value_key(cx, body, args[0])
                idn = ("unk",)
                for oo in origins(body, args[1], transparent=()):
                    if oo.kind == "agg" and oo.data["kind"] == "tuple":
                        idn = node_of_id(cx, body, oo.site.node["rv"]["ops"][0])
                out.append(("+", key, idn))
            elif d in ("core::option::Option::unwrap", "core::option::Option::expect", "core::option::Option::take", "core::mem::replace", "core::mem::take"):
                # `table[id].take().unwrap()`: the entry read while it is cleared is still that entry
                out += var_of_int(cx, body, args[0], depth + 1)
            elif d in ("core::ops::index::Index::index", "core::ops::index::IndexMut::index_mut") or re.search(r"^core::slice::<impl \[T\]>::get(_mut)?$|^core::slice::get(_mut)?$", d):
                # table[id] / table.get_mut(id) : a per-argument table of variables (dynamic encoders)
                tbl = _table_key(cx, body, args[0])
                out.append(("+", ("table", tbl), node_of_id(cx, body, args[1])))
            else:
                tgt = cx.prog.body_for_callee(c, body) if c.get("decl") != "<indirect>" else None
                if tgt is not None and tgt.ret_ty in ("usize", "isize") and tgt.kind != "closure":
                    ints = [i for i in range(1, tgt.n_args + 1) if tgt.local_ty(i) == "usize"]
                    if len(ints) == 1 and tgt.n_args == 1:
                        out.append(("+", ("fn", strip_generics(tgt.path)), node_of_id(cx, body, args[0])))
                    elif len(ints) == 2 and tgt.n_args == 2:
                        out.append(("+", ("fn2", strip_generics(tgt.path)), node_of_id(cx, body, args[1])))
                    else:
                        out.append(("+", ("unk", "fn " + tgt.path), ("unk",)))
                elif tgt is not None and tgt.ret_ty.startswith("core::option::Option<usize"):
                    out.append(("+", ("fnopt", strip_generics(tgt.path)), node_of_id(cx, body, args[-1])))
                else:
                    out.append(("+", ("unk", "call " + d), ("unk",)))
        elif o.kind == "param":
            out.append(("+", ("ivar", ("param", o.data)), ("unk",)))
        elif o.kind == "agg" and o.data.get("variant") == "None" and o.fields:
            continue  # the payload of a `Some` is read: a `None` built on another path supplies no value
        elif o.kind == "upvar":
            par, cop = tags._closure_capture_operand(cx.prog, body, o.data)
            if cop is not None:
                out += var_of_int(cx, par, cop, depth + 1)
            else:
                out.append(("+", ("unk", "upvar"), ("unk",)))
        else:
            out.append(("+", ("unk", o.kind), ("unk",)))
    return out


def _table_key(cx, body, op):
    for o in origins(body, op, transparent=("core::ops::deref::Deref::deref", "core::cell::RefCell::borrow")):
        if o.kind == "param" and o.fields:
            return "self." + str(o.fields[0])
        if o.kind == "upvar":
            return "upvar:" + str(body.upvar_name(o.data))
    return "?"


def _fn_value_key(cx, body, op, depth=0):
    """KIND of a `&dyn Fn(usize) -> usize` operand"""
    for o in origins(body, op, transparent=()):
        if o.kind == "param":
            return ("dyn", ("param", o.data))
        if o.kind == "const" and "fn" in o.data:
            return ("fn", strip_generics(callee_name(o.data["fn"])))
        if o.kind == "const":
            import re as _re

            m = _re.search(r"fn\(usize\) -> usize \{([^}]+)\}", o.data.get("ty", ""))
            if m:
                return ("fn", strip_generics(m.group(1)))
        if o.kind == "upvar" and depth < 4:
            par, cop = tags._closure_capture_operand(cx.prog, body, o.data)
            if cop is not None:
                return _fn_value_key(cx, par, cop, depth + 1)
        if o.kind == "agg" and o.data.get("kind") == "closure":
            return ("closure", o.data["path"])
    return ("unk", "fn value")


def _fixed_array_of(body, op):
    """the array aggregate site when the iterator operand iterates a fixed array literal (`[a, b].into_iter()`)"""
    for o in origins(body, op, transparent=tags.ELEMENT_PRESERVING):
        if o.kind == "agg" and o.data.get("kind") == "array":
            return o.site
    return None


def lits_of_literal(cx, body, op, depth=0):
    """[(sign, KIND, NODE)] for a `Literal` operand"""
    out = []
    if depth > MAX_DEPTH:
        return [("?", ("unk", "depth"), ("unk",))]
    for o in origins(body, op, transparent=("core::clone::Clone::clone",)):
        if o.kind == "call":
            c = o.data
            d = callee_decl(c)
            args = o.site.node["args"]
            if callee_matches(c, r"sat::sat_solver::Literal::negate$"):
                out += [(_flip(s), kd, nd) for s, kd, nd in lits_of_literal(cx, body, args[0], depth + 1)]
            elif d in ("core::convert::From::from", "core::convert::Into::into"):
                out += var_of_int(cx, body, args[0], depth + 1)
            elif callee_matches(c, r"ConstraintsEncoder::arg_to_lit$|DynamicConstraintsEncoder::arg_to_lit$"):
                out.append(("+", ("arg_to_lit",), node_of_label(cx, body, args[-1])))
            elif d == "core::iter::traits::iterator::Iterator::next" and _fixed_array_of(body, args[0]) is not None:
                # `for lit in [a, b] { .. }`: one alternative per array element (expanded into one template each)
                arr = _fixed_array_of(body, args[0])
                gid = "%s@bb%d" % (body.id, o.site.bb)
                for i, x in enumerate(arr.node["rv"]["ops"]):
                    for sg, kd, nd in lits_of_literal(cx, body, x, depth + 1):
                        out.append((sg, ("choice", gid, i, kd), nd))
            else:
                tgt = cx.prog.body_for_callee(c, body) if c.get("decl") != "<indirect>" else None
                if tgt is not None and tgt.kind != "closure" and tgt.ret_ty.endswith("sat::sat_solver::Literal") and depth < MAX_DEPTH:
                    # a local helper building a literal from ids / labels it is given: instantiate its summary
                    for sg, kd, nd in lits_of_literal(cx, tgt, {"c": {"l": 0, "p": []}}, depth + 1):
                        inner = kd[1] if kd[0] == "plus1" else kd
                        if inner[0] == "ivar" and inner[1][0] == "param" and inner[1][1] - 1 < len(args):
                            # the helper turns a variable number it is given into a literal: what the caller passes
                            for sg2, kd2, nd2 in var_of_int(cx, body, args[inner[1][1] - 1], depth + 1):
                                k3 = ("plus1", kd2) if kd[0] == "plus1" else kd2
                                out.append((sg if sg2 == "+" else _flip(sg), k3, nd2))
                            continue
                        if nd[0] == "idparam" and nd[1] - 1 < len(args):
                            nd = node_of_id(cx, body, args[nd[1] - 1])
                        elif nd[0] == "lab" and nd[1] - 1 < len(args):
                            nd = node_of_label(cx, body, args[nd[1] - 1])
                        out.append((sg, kd, nd))
                else:
                    out.append(("?", ("unk", "call " + d), ("unk",)))
        elif o.kind == "call" and False:
            pass
        elif o.kind == "param":
            if body.kind == "closure" and o.data == 2:
                out.append(("+", ("elem",), ("unk",)))
            else:
                out.append(("+", ("lparam", ("param", o.data)), ("unk",)))
        elif o.kind == "upvar":
            par, cop = tags._closure_capture_operand(cx.prog, body, o.data)
            out += lits_of_literal(cx, par, cop, depth + 1) if cop is not None else [("?", ("unk", "upvar"), ("unk",))]
        else:
            out.append(("?", ("unk", o.kind), ("unk",)))
    return out


def clause_elements(cx, body, op, depth=0):
    """[(sign, KIND, NODE, many)] for the Vec<Literal> operand of add_clause"""
    out = []
    if depth > MAX_DEPTH:
        return [("?", ("unk", "depth"), ("unk",), False)]
    for o in origins(body, op, transparent=tags.ELEMENT_PRESERVING):
        if o.kind == "call":
            c = o.data
            d = callee_decl(c)
            args = o.site.node["args"]
            if d == "core::iter::traits::iterator::Iterator::map":
                fa = c.get("fn_args") or []
                if any(x == "core::convert::From::from" or x.endswith("From<isize>>::from") for x in fa):
                    # clause![a, b, ..]
                    for oo in origins(body, args[0], transparent=tags.ELEMENT_PRESERVING):
                        if oo.kind == "agg" and oo.data["kind"] == "array":
                            for x in oo.site.node["rv"]["ops"]:
                                out += [(s, kd, nd, False) for s, kd, nd in var_of_int(cx, body, x, depth + 1)]
                        else:
                            out.append(("?", ("unk", "clause! source"), ("unk",), False))
                else:
                    clos = [cx.prog.lib(x) for x in fa]
                    for clo in clos:
                        if clo is None:
                            out.append(("?", ("unk", "map"), ("unk",), True))
                            continue
                        out += [(s, kd, nd, True) for s, kd, nd in lits_of_literal(cx, clo, {"c": {"l": 0, "p": []}}, depth + 1)]
            elif d == "alloc::boxed::box_assume_init_into_vec_unsafe":
                for oo in origins(body, args[0], transparent=()):
                    if oo.kind == "call" and oo.site is not None:
                        for st in body.ptr_store_defs.get(oo.site.node["dst"]["l"], []):
                            rv = st.node["rv"]
                            if rv["k"] == "aggregate" and rv["agg"]["kind"] == "array":
                                for x in rv["ops"]:
                                    out += [(s, kd, nd, False) for s, kd, nd in lits_of_literal(cx, body, x, depth + 1)]
            elif d in ("alloc::vec::Vec::new", "alloc::vec::Vec::with_capacity"):
                pass
            elif d == "core::iter::traits::iterator::Iterator::chain":
                out += clause_elements(cx, body, args[0], depth + 1) + clause_elements(cx, body, args[1], depth + 1)
            elif d == "core::iter::sources::once::once":
                out += [(s, kd, nd, False) for s, kd, nd in lits_of_literal(cx, body, args[0], depth + 1)]
            else:
                out.append(("?", ("unk", "call " + d), ("unk",), False))
            # literals pushed afterwards on this vector (in this body or in closures capturing it)
            for cl in _chain_locals(body, op) | {o.site.node["dst"]["l"]}:
                out += _pushed_elements(cx, body, cl, depth)
        elif o.kind == "param":
            if body.kind == "closure" and o.data == 2:
                out.append(("+", ("elem-clause",), ("unk",), True))
            else:
                out.append(("+", ("cparam", ("param", o.data)), ("unk",), True))
        elif o.kind == "upvar":
            par, cop = tags._closure_capture_operand(cx.prog, body, o.data)
            out += clause_elements(cx, par, cop, depth + 1) if cop is not None else [("?", ("unk", "upvar"), ("unk",), False)]
        elif o.kind in ("undef", "partial", "const"):
            continue
        else:
            out.append(("?", ("unk", o.kind), ("unk",), False))
    # dedupe
    seen = []
    for e in out:
        if e not in seen:
            seen.append(e)
    return seen


def _chain_locals(body, op, limit=20):
    """locals holding (successively) the vector that ends up in `op`: moves and element-preserving calls"""
    out = set()
    p = op_place(op)
    work = [p["l"]] if p is not None else []
    while work and len(out) < limit:
        l = work.pop()
        if l in out:
            continue
        out.add(l)
        for d in body.defs.get(l, []):
            if d.si is not None and d.node["k"] == "assign" and d.node["rv"]["k"] in ("use", "cast"):
                q = op_place(d.node["rv"]["ops"][0])
                if q is not None and not q["p"]:
                    work.append(q["l"])
            elif d.si is None and callee_decl(callee_of(d)) in ("core::iter::traits::iterator::Iterator::collect",):
                pass
    return out


def _pushed_elements(cx, body, local, depth):
    out = []
    aliases = {local}
    changed = True
    while changed:
        changed = False
        for s in body.sites():
            n = s.node
            if s.si is not None and n["k"] == "assign" and n["rv"]["k"] == "use" and not n["dst"]["p"]:
                q = op_place(n["rv"]["ops"][0])
                if q is not None and q["l"] in aliases and not q["p"] and n["dst"]["l"] not in aliases:
                    aliases.add(n["dst"]["l"])
                    changed = True
    for a in aliases:
        for s in body.mut_call_defs.get(a, []):
            d = callee_decl(callee_of(s))
            if d == "alloc::vec::Vec::push":
                # "once per iteration" only for a loop the vector outlives: a vector created inside the loop body is a new
                # clause each time round
                created = [dd.bb for al in aliases for dd in body.defs.get(al, []) if dd.si is None and callee_decl(callee_of(dd)) in ("alloc::vec::Vec::new", "alloc::vec::Vec::with_capacity", "alloc::boxed::box_assume_init_into_vec_unsafe", "alloc::vec::from_elem")]
                loops_ = dict(body.loops())
                many = any(not any(cb in loops_[h] for cb in created) for h in body.in_loop(s.bb)) if created else bool(body.in_loop(s.bb))
                out += [(sg, kd, nd, many) for sg, kd, nd in lits_of_literal(cx, body, s.node["args"][1], depth + 1)]
            elif d == "alloc::vec::Vec::append":
                out += [(sg, kd, nd, True) for sg, kd, nd, _ in clause_elements(cx, body, s.node["args"][1], depth + 1)]
    for clo in cx.prog.closures_of(body):
        if not clo.parent or clo.parent["direct"] != body.path:
            continue
        for u in clo.upvars:
            par, cop = tags._closure_capture_operand(cx.prog, clo, u["field"])
            if par is not body or cop is None:
                continue
            sd, _, _ = data_deps(body, cop, through_calls=False)
            if not (sd & aliases):
                continue
            for s in clo.calls():
                if callee_decl(callee_of(s)) == "alloc::vec::Vec::push":
                    if any(o.kind == "upvar" and o.data == u["field"] for o in origins(clo, s.node["args"][0], transparent=("core::ops::deref::DerefMut::deref_mut",))):
                        g = _guards(cx, clo, s)
                        for sg, kd, nd in lits_of_literal(cx, clo, s.node["args"][1], depth + 1):
                            out.append((sg, kd, nd, True) if not g else (sg, kd, nd, True))
    return out


def _guards(cx, body, site):
    """guards relevant to clause shapes: comparison of two node ids (self-attack tests)"""
    out = []
    for c in conditions(body, site.bb):
        if c.is_discr:
            continue
        for o in origins(body, c.place, transparent=()):
            if o.kind == "binop" and o.data["op"] in ("Eq", "Ne"):
                a = node_of_id(cx, body, o.data["ops"][0])
                b = node_of_id(cx, body, o.data["ops"][1])
                if a != ("unk",) and b != ("unk",):
                    eq = (o.data["op"] == "Eq") == c.is_true()
                    out.append(("same-node" if eq else "different-node", a, b))
    return out


# ------------------------------------------------------------------------------------------
# function summaries and instantiation


class ClauseT:
    def __init__(self, lits, per, guards, site, chain):
        self.lits = lits
        self.per = per
        self.guards = guards
        self.site = site
        self.chain = chain

    def key(self):
        return (tuple(sorted((s, str(k), str(n), m) for s, k, n, m in self.lits)), str(self.per), tuple(sorted(str(g) for g in self.guards)))

    def __repr__(self):
        return "[%s] per=%s%s" % (", ".join("%s%s(%s)%s" % (s, _kind_s(k), _node_s(n), "*" if m else "") for s, k, n, m in self.lits), _node_s(self.per) if isinstance(self.per, tuple) else self.per, (" if " + str(self.guards)) if self.guards else "")


def _kind_s(k):
    if k[0] in ("fn", "fn2", "fnopt"):
        return k[1].rsplit("::", 1)[-1]
    if k[0] == "plus1":
        return "1+" + _kind_s(k[1])
    return ":".join(str(x) for x in k)


def _node_s(n):
    if not isinstance(n, tuple):
        return str(n)
    if n[0] == "attacker":
        return "att(%s)" % _node_s(n[1])
    if n[0] == "lab":
        return "arg#%d" % n[1]
    return ":".join(str(x) for x in n)


def local_clause_sites(cx, fn):
    """add_clause sites of fn and of its closures, as templates over fn's parameters"""
    out = []
    for x in cx.live_closures(fn):
        for s in x.calls():
            if cx.skip(x, s.bb):
                continue
            if not callee_matches(callee_of(s), r"sat_solver::SatSolver::add_clause$"):
                continue
            lits = clause_elements(cx, x, s.node["args"][1])
            per = "arg"
            lt = _loop_iter_target(cx, x, s.bb)
            groups = sorted({k[1] for _, k, _, _ in lits if k[0] == "choice"})
            if groups and lt == ("unk",):
                # the loop over the fixed array is not an iteration over arguments / attackers
                outer = [h for h in x.in_loop(s.bb)]
                lt = None if len(outer) <= 1 else lt
            if lt is not None:
                per = ("attacker", lt) if lt not in (("each-arg",), ("unk",)) else ("arg" if lt == ("each-arg",) else "loop")
            elif x is not fn:
                tgt = _closure_iter_target(cx, x)
                per = ("attacker", tgt) if tgt != ("each-arg",) else "arg"
                if tgt == ("unk",):
                    per = "loop"
            if groups:
                import itertools

                alts = [sorted({k[2] for _, k, _, _ in lits if k[0] == "choice" and k[1] == g}) for g in groups]
                for pick in itertools.product(*alts):
                    chosen = dict(zip(groups, pick))
                    ls = []
                    for sg, k, nd, m in lits:
                        if k[0] == "choice":
                            if chosen[k[1]] == k[2]:
                                ls.append((sg, k[3], nd, False))
                        else:
                            ls.append((sg, k, nd, m))
                    out.append(ClauseT(ls, per, _guards(cx, x, s), s, [fn.path]))
                continue
            out.append(ClauseT(lits, per, _guards(cx, x, s), s, [fn.path]))
    return out


def _loop_iter_target(cx, body, bb):
    """for a block inside a `for` loop of `body`: the node X when the innermost loop iterates iter_attacks_to(X),
    ('each-arg',) for ArgumentSet::iter, ('unk',) for another loop; None when bb is in no loop"""
    heads = body.in_loop(bb)
    if not heads:
        return None
    loops = dict(body.loops())
    # innermost = the smallest loop containing bb
    head = min(heads, key=lambda h: len(loops[h]))
    blocks = loops[head]
    for s in body.calls():
        if s.bb in blocks and callee_decl(callee_of(s)) == "core::iter::traits::iterator::Iterator::next":
            # the loop driven by this next(): its head is this loop's
            if min(body.in_loop(s.bb), key=lambda h: len(loops[h])) != head:
                continue
            _, calls, _ = data_deps(body, s.node["args"][0])
            for c in calls:
                if callee_matches(callee_of(c), r"AAFramework::iter_attacks_to$"):
                    return node_of_label(cx, body, c.node["args"][1])
            for c in calls:
                if callee_matches(callee_of(c), r"ArgumentSet::iter$"):
                    return ("each-arg",)
    return ("unk",)


def _subst_node(n, lab_map):
    if not isinstance(n, tuple):
        return n
    if n[0] == "lab":
        return lab_map.get(n[1], n)
    if n[0] == "attacker":
        return ("attacker", _subst_node(n[1], lab_map))
    return n


def _subst_kind(k, var_map, node):
    """returns (kind, node, extra_sign_flip)"""
    if k[0] == "dyn" and k[1] in var_map:
        v = var_map[k[1]]
        return v, node
    if k[0] == "ivar" and k[1] in var_map:
        v = var_map[k[1]]
        if isinstance(v, tuple) and v[0] == "bound":
            return v[1], v[2]
        return v, node
    if k[0] == "plus1":
        kk, nn = _subst_kind(k[1], var_map, node)
        return ("plus1", kk), nn
    return k, node


def templates(cx, fn, lab_map=None, var_map=None, depth=0, chain=()):
    """clause templates produced by calling fn (with closures and local callees), instantiated with the
    caller's actual arguments: lab_map {param k -> NODE}, var_map {('param',k) -> KIND or ('bound', KIND, NODE)}"""
    lab_map = lab_map or {}
    var_map = var_map or {}
    out = []
    if depth > 6 or fn.path in chain:
        return out
    for t in local_clause_sites(cx, fn):
        lits = []
        for s, k, n, m in t.lits:
            n2 = _subst_node(n, lab_map)
            k2, n3 = _subst_kind(k, var_map, n2)
            if isinstance(k2, tuple) and k2 and k2[0] == "signed":
                s = s if k2[1] == "+" else _flip(s)
                k2 = k2[2]
            lits.append((s, k2, n3, m))
        per = t.per
        if isinstance(per, tuple):
            per = (per[0], _subst_node(per[1], lab_map))
        guards = [tuple(_subst_node(g, lab_map) if isinstance(g, tuple) else g for g in gg) for gg in t.guards]
        out.append(ClauseT(lits, per, guards, t.site, list(chain) + [fn.path]))
    # callees
    for x in cx.live_closures(fn):
        for s in x.calls():
            if cx.skip(x, s.bb):
                continue
            c = callee_of(s)
            tgt = cx.prog.body_for_callee(c, x) if c else None
            if tgt is None or tgt.kind == "closure" or tgt is fn:
                continue
            if not _adds_clauses(cx, tgt):
                continue
            lm, vm = {}, {}
            for i, a in enumerate(s.node["args"]):
                pi = i + 1
                ty = tgt.local_ty(pi)
                if "Label<" in ty:
                    lm[pi] = _subst_node(node_of_label(cx, x, a), lab_map)
                elif "dyn core::ops::function::Fn(usize) -> usize" in ty:
                    k = _fn_value_key(cx, x, a)
                    k2, _ = _subst_kind(k, var_map, ("unk",))
                    vm[("param", pi)] = k2
                elif ty in ("isize", "usize"):
                    vs = var_of_int(cx, x, a)
                    if len(vs) == 1:
                        sg, kd, nd = vs[0]
                        nd = _subst_node(nd, lab_map)
                        kd, nd = _subst_kind(kd, var_map, nd)
                        vm[("param", pi)] = ("bound", ("signed", sg, kd) if sg == "-" else kd, nd)
            per_ctx = None
            sub = templates(cx, tgt, lm, vm, depth + 1, tuple(chain) + (fn.path,))
            # a callee invoked inside an attacker loop runs once per attacker
            tnode = _loop_iter_target(cx, x, s.bb)
            if tnode is None and x is not fn:
                tnode = _closure_iter_target(cx, x)
            if tnode is not None and tnode not in (("each-arg",), ("unk",)):
                for t in sub:
                    if t.per == "arg":
                        t.per = ("attacker", _subst_node(tnode, lab_map))
            out += sub
    return out


def _adds_clauses(cx, fn, depth=0, seen=None):
    seen = seen or set()
    if fn.id in seen or depth > 6:
        return False
    seen.add(fn.id)
    key = fn.id
    if key in cx.sum_cache:
        return cx.sum_cache[key]
    res = False
    for x in cx.prog.with_closures(fn):
        for s in x.calls():
            c = callee_of(s)
            if callee_matches(c, r"sat_solver::SatSolver::add_clause$"):
                res = True
            t = cx.prog.body_for_callee(c, x) if c else None
            if t is not None and t.kind != "closure" and t is not fn and _adds_clauses(cx, t, depth + 1, seen):
                res = True
    cx.sum_cache[key] = res
    return res
