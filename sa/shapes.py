"""F5: return-shape summaries in a small relational domain.

A *shape* abstracts a value:
    bool:    True | False | ('p', k) the bool parameter k | ('np', k) its negation | '?'
    Option:  'None' | ('Some', shape-of-content)
    tuple:   ('t', (shape, shape, ..))
    other:   'v' (some value)
`shapes_of(prog, body, operand)` returns the set of shapes the operand may have at a site,
`return_shapes(prog, fn)` those of the return value.  Calls of local functions are replaced by
the callee's return shapes with its bool parameters substituted by constant arguments
(summaries to a fixpoint, recursion cut with '?').  Conditions dominating the site restrict the
shapes of a call result component-wise (the relational part: `if let (Some(b), Some(e)) = f()`).
"""
from .core import callee_of, callee_decl, callee_matches, op_place, op_const, origins, place_fields, strip_generics, callee_name
from .flow import conditions

MAXS = 64


def neg(s):
    if s is True:
        return False
    if s is False:
        return True
    if isinstance(s, tuple) and s[0] == "p":
        return ("np", s[1])
    if isinstance(s, tuple) and s[0] == "np":
        return ("p", s[1])
    return "?"


def subst(s, env):
    """replace ('p',k)/('np',k) by constants of env {k: bool}"""
    if isinstance(s, tuple):
        if s[0] == "p":
            return env.get(s[1], s) if not isinstance(env.get(s[1]), tuple) else env[s[1]]
        if s[0] == "np":
            v = env.get(s[1])
            if v is None:
                return s
            return neg(v)
        if s[0] == "Some":
            return ("Some", subst(s[1], env))
        if s[0] == "t":
            return ("t", tuple(subst(x, env) for x in s[1]))
    return s


def project(s, fields):
    """component of a shape along tuple / Some projections"""
    for f in fields:
        f = str(f)
        if isinstance(s, tuple) and s[0] == "t" and f.isdigit() and int(f) < len(s[1]):
            s = s[1][int(f)]
        elif isinstance(s, tuple) and s[0] == "Some" and f == "0":
            s = s[1]
        elif s == "None":
            return "None"
        else:
            return "?"
    return s


_ret_cache = {}


def return_shapes(prog, fn, stack=()):
    key = fn.id
    if key in _ret_cache:
        return _ret_cache[key]
    if key in stack or len(stack) > 8:
        return {"?"}
    res = shapes_of(prog, fn, {"c": {"l": 0, "p": []}}, None, stack + (key,))
    if len(stack) == 0:
        _ret_cache[key] = res
    return res


def clear_cache():
    _ret_cache.clear()


def _ty_kind(ty):
    ty = ty.strip()
    if ty == "bool":
        return "bool"
    if ty.startswith("core::option::Option<"):
        return "option"
    if ty.startswith("("):
        return "tuple"
    return "other"


def shapes_of(prog, body, op, site=None, stack=(), depth=0):
    k = op_const(op)
    if k is not None:
        if "bool" in k:
            return {k["bool"]}
        return {"v"}
    if depth > 10:
        return {"?"}
    out = set()
    p = op_place(op)
    os_ = origins(body, op, transparent=("core::clone::Clone::clone",))
    for o in os_:
        if o.kind == "const":
            out.add(o.data["bool"] if "bool" in o.data else "v")
        elif o.kind == "param":
            ty = body.local_ty(o.data)
            if ty == "bool" and not o.fields:
                out.add(("p", o.data))
            else:
                out.add("v")
        elif o.kind == "agg":
            a = o.data
            ops = o.site.node["rv"]["ops"]
            if a["kind"] == "tuple":
                # components that are projections of one local tuple keep their correlation
                bases = [_field_of_local(body, x) for x in ops]
                common = {}
                for i, bf in enumerate(bases):
                    if bf is not None:
                        common.setdefault(bf[0], []).append((i, bf[1]))
                joint = None
                for bl, members in common.items():
                    if len(members) >= 2 and not (1 <= bl <= body.n_args):
                        joint = (bl, members)
                comps = [shapes_of(prog, body, x, o.site, stack, depth + 1) for x in ops]
                combos = [()]
                if joint is not None:
                    bl, members = joint
                    whole = shapes_of(prog, body, {"c": {"l": bl, "p": []}}, o.site, stack, depth + 1)
                    combos = []
                    for w in whole:
                        base = [None] * len(ops)
                        for i, flds in members:
                            base[i] = {project(w, flds)}
                        sub = [()]
                        for i in range(len(ops)):
                            cs = base[i] if base[i] is not None else comps[i]
                            sub = [c + (x,) for c in sub for x in cs][:MAXS]
                        combos += sub
                    combos = combos[:MAXS]
                else:
                    for cs in comps:
                        combos = [c + (x,) for c in combos for x in cs][:MAXS]
                for c in combos:
                    out.add(project(("t", c), o.fields))
            elif a["kind"] == "adt" and a["path"] == "core::option::Option":
                if a["variant"] == "None":
                    out.add(project("None", o.fields) if o.fields else "None")
                else:
                    for x in shapes_of(prog, body, ops[0], o.site, stack, depth + 1):
                        out.add(project(("Some", x), o.fields))
            else:
                out.add("v")
        elif o.kind == "unop" and o.data["op"] == "Not":
            for x in shapes_of(prog, body, o.data["ops"][0], o.site, stack, depth + 1):
                out.add(neg(x))
        elif o.kind == "call":
            c = o.data
            tgt = prog.body_for_callee(c, body) if c.get("decl") != "<indirect>" else None
            if tgt is None and c.get("virtual") and c.get("trait") in prog.traits and c.get("trait", "").startswith("solvers::specs::"):
                # dynamic dispatch on a solver trait: any implementation (summaries of all impls)
                mname = c["decl"].rsplit("::", 1)[-1]
                for _, mb in prog.impl_methods(c["trait"], mname):
                    if mb.id in stack or mb is body:
                        continue
                    for s2 in return_shapes(prog, mb, stack + (body.id,)):
                        if s2 != "?":
                            out.add(project(s2, o.fields))
                continue
            if tgt is not None:
                env = {}
                args = o.site.node["args"]
                # closures called directly: args = (closure, (tuple,))
                if tgt.kind == "closure" and len(args) == 2:
                    for oo in origins(body, args[1], transparent=()):
                        if oo.kind == "agg" and oo.data["kind"] == "tuple":
                            for i, x in enumerate(oo.site.node["rv"]["ops"]):
                                kk = op_const(x)
                                if kk is not None and "bool" in kk:
                                    env[i + 2] = kk["bool"]
                else:
                    for i, x in enumerate(args):
                        kk = op_const(x)
                        if kk is not None and "bool" in kk:
                            env[i + 1] = kk["bool"]
                        else:
                            # a bool parameter of the caller forwarded unchanged
                            xs = shapes_of(prog, body, x, o.site, stack, depth + 1) if body.local_ty(op_place(x)["l"]) == "bool" and not op_place(x)["p"] else set() if op_place(x) is not None else set()
                            if len(xs) == 1:
                                env[i + 1] = next(iter(xs))
                rs = {subst(s, env) for s in return_shapes(prog, tgt, stack)}
                rs = _restrict(prog, body, o, rs, site)
                for s in rs:
                    out.add(project(s, o.fields))
            else:
                d = callee_decl(c)
                if d in ("core::option::Option::is_some", "core::option::Option::is_none", "core::slice::contains", "core::iter::traits::iterator::Iterator::any", "core::iter::traits::iterator::Iterator::all", "core::cmp::PartialEq::eq", "core::cmp::PartialEq::ne", "alloc::vec::Vec::is_empty"):
                    out.add("?")
                elif d == "core::option::Option::map":
                    for x in shapes_of(prog, body, o.site.node["args"][0], o.site, stack, depth + 1):
                        out.add(project(("Some", "v") if isinstance(x, tuple) and x[0] == "Some" else x, o.fields))
                elif d in ("core::option::Option::take", "core::mem::replace", "core::mem::take"):
                    out.add("?")
                else:
                    kind = _ty_kind(body.local_ty(o.site.node["dst"]["l"]))
                    out.add("v" if kind == "other" and not o.fields else "?")
        elif o.kind in ("binop", "discr", "unknown", "unop"):
            out.add("?")
        elif o.kind == "upvar":
            out.add("?")
        elif o.kind in ("undef", "partial"):
            continue
        else:
            out.add("?")
    return out or {"?"}


def _field_of_local(body, op, limit=6):
    """(local, fields) when the operand is (a copy/move of) a field path of a local"""
    p = op_place(op)
    for _ in range(limit):
        if p is None:
            return None
        if p["p"]:
            if any(e == "*" for e in p["p"]):
                return None
            return (p["l"], tuple(str(f) for f in place_fields(p)))
        ds = body.defs.get(p["l"], [])
        if len(ds) == 1 and ds[0].si is None and callee_decl(callee_of(ds[0])) in ("core::option::Option::map", "core::option::Option::as_ref", "core::option::Option::cloned", "core::option::Option::as_mut"):
            # Some-ness preserving adaptors
            p = op_place(ds[0].node["args"][0])
            continue
        if len(ds) != 1 or ds[0].si is None or ds[0].node["k"] != "assign" or ds[0].node["rv"]["k"] != "use":
            return None
        p = op_place(ds[0].node["rv"]["ops"][0])
    return None


def _restrict(prog, body, origin, shapes, site):
    """keep the shapes of a call result compatible with the branch conditions dominating `site`
    that test components of that very result"""
    if site is None:
        return shapes
    res_local = origin.site.node["dst"]["l"]
    keep = set(shapes)
    for c in conditions(body, site.bb):
        if c.place["l"] != res_local:
            continue
        flds = [str(f) for f in place_fields(c.place)]
        new = set()
        for s in keep:
            comp = project(s, flds)
            ok = True
            if c.is_discr:
                is_some = isinstance(comp, tuple) and comp[0] == "Some"
                is_none = comp == "None"
                vals = set(c.values)
                if comp == "?":
                    ok = True
                elif not c.negated:
                    ok = (is_some and "1" in vals) or (is_none and "0" in vals)
                else:
                    ok = not ((is_some and "1" in vals) or (is_none and "0" in vals))
            else:
                if comp is True:
                    ok = not c.is_false()
                elif comp is False:
                    ok = not c.is_true()
            if ok:
                new.add(s)
        keep = new
    return keep
