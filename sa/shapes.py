"""F5: return-shape summaries in a small relational domain.

A *shape* abstracts a value:
    bool:    True | False | ('p', k) the bool parameter k | ('np', k) its negation | '?'
    Option:  'None' | ('Some', shape-of-content)
    tuple:   ('t', (shape, shape, ..))
    other:   'v' (some value)
`shapes_of(prog, body, operand)` returns the set of shapes the operand may have at a site,
`return_shapes(prog, fn)` those of the return value.  Calls of local functions are replaced by
the callee's return shapes with its bool parameters substituted by constant arguments
(summaries to a fixpoint, recursion cut with '?').  Conditions dominating the site restrict the
shapes of a call result component-wise (the relational part: `if let (Some(b), Some(e)) = f()`).
"""
import re
from .core import callee_of, callee_decl, callee_matches, op_place, op_const, origins, place_fields, strip_generics, callee_name
from .flow import conditions

MAXS = 64


def neg(s):
    if s is True:
        return False
    if s is False:
        return True
    if isinstance(s, tuple) and s[0] == "p":
        return ("np", s[1])
    if isinstance(s, tuple) and s[0] == "np":
        return ("p", s[1])
    if isinstance(s, tuple) and s[0] == "eq":
        return ("ne",) + s[1:]
    if isinstance(s, tuple) and s[0] == "ne":
        return ("eq",) + s[1:]
    return "?"


def subst(s, env):
    """replace ('p',k)/('np',k) by constants of env {k: bool}"""
    if isinstance(s, tuple):
        if s[0] == "p":
            return env.get(s[1], s) if not isinstance(env.get(s[1]), tuple) else env[s[1]]
        if s[0] == "np":
            v = env.get(s[1])
            if v is None:
                return s
            return neg(v)
        if s[0] in ("eq", "ne"):
            v = env.get(s[1])
            if isinstance(v, tuple) and v[0] == "variant":
                return (v[1] == s[2]) == (s[0] == "eq")
            return s
        if s[0] == "Some":
            return ("Some", subst(s[1], env))
        if s[0] == "t":
            return ("t", tuple(subst(x, env) for x in s[1]))
    return s


def project(s, fields):
    """component of a shape along tuple / Some projections"""
    for f in fields:
        f = str(f)
        if isinstance(s, tuple) and s[0] == "t" and f.isdigit() and int(f) < len(s[1]):
            s = s[1][int(f)]
        elif isinstance(s, tuple) and s[0] == "Some" and f == "0":
            s = s[1]
        elif s == "None":
            return "None"
        else:
            return "?"
    return s


_ret_cache = {}


def return_shapes(prog, fn, stack=(), penv=None):
    """shapes of the return value; `penv` {parameter: True | False | ('variant', name)} fixes parameters the caller passes as
    constants: the paths they rule out (branches on them) do not contribute"""
    penv = {k: v for k, v in (penv or {}).items() if v is True or v is False or (isinstance(v, tuple) and v[0] == "variant")}
    key = (fn.id, tuple(sorted(penv.items(), key=str)))
    if key in _ret_cache:
        return _ret_cache[key]
    if fn.id in stack or len(stack) > 8:
        return {"?"}
    global _cross_events
    before = _cross_events
    res = shapes_of(prog, fn, {"c": {"l": 0, "p": []}}, None, stack + (fn.id,), 0, penv)
    if len(stack) == 0:
        _ret_cache[key] = res
        _ret_imprecise[key] = _cross_events > before
    return res


_cross_events = 0
_ret_imprecise = {}


def imprecise(fn, penv=None):
    """did the last top-level evaluation of fn's return shapes build a tuple as the cross product of two components that each had several
    shapes (their correlation, if any, is lost: the product over-approximates)"""
    penv = {k: v for k, v in (penv or {}).items() if v is True or v is False or (isinstance(v, tuple) and v[0] == "variant")}
    return bool(_ret_imprecise.get((fn.id, tuple(sorted(penv.items(), key=str)))))


def rectangle_artifacts(shapes, bad):
    """the members of `bad` (2-tuples among `shapes`) that a cross product explains: (a, b) with (a, b') and (a', b) among the other shapes"""
    pairs = {s[1] for s in shapes if isinstance(s, tuple) and s[0] == "t" and len(s[1]) == 2}
    good = pairs - {x[1] for x in bad if isinstance(x, tuple) and x[0] == "t"}
    out = []
    for x in bad:
        if isinstance(x, tuple) and x[0] == "t" and len(x[1]) == 2:
            a, b = x[1]
            if any(g[0] == a for g in good) and any(g[1] == b for g in good):
                out.append(x)
    return out


def clear_cache():
    _ret_cache.clear()
    _ret_imprecise.clear()
    _infeasible_cache.clear()


_infeasible_cache = {}


def _param_of(body, place):
    """the parameter a place is a plain copy / borrow of, else None"""
    ks = set()
    for o in origins(body, place, transparent=()):
        if o.kind == "param" and not o.fields:
            ks.add(o.data)
        else:
            return None
    return next(iter(ks)) if len(ks) == 1 else None


def _variant_index(prog, body, ty, name):
    ty = ty.replace("&", "").strip()
    a = prog.adts_by_target[body.target].get(ty) or prog.adt(ty)
    if a is None:
        return None
    for v in a.get("variants") or []:
        if v["name"] == name:
            return str(v["idx"])
    return None


def infeasible_blocks(prog, body, penv, stack=()):
    """blocks no path reaches when the parameters hold the constants of penv (decided by the branch conditions on them)"""
    if not penv:
        return frozenset()
    key = (body.id, tuple(sorted(penv.items(), key=str)))
    if key in _infeasible_cache:
        return _infeasible_cache[key]
    _infeasible_cache[key] = frozenset()
    bad = set()
    for bb in body.reachable:
        for c in conditions(body, bb):
            if c.is_discr:
                k = _param_of(body, c.place)
                v = penv.get(k) if k is not None else None
                if isinstance(v, tuple) and v[0] == "variant":
                    idx = _variant_index(prog, body, body.local_ty(k), v[1])
                    if idx is None:
                        continue
                    holds = (idx in c.values) != c.negated
                    if not holds:
                        bad.add(bb)
                        break
            else:
                if not (c.is_true() or c.is_false()):
                    continue
                k = _param_of(body, c.place)
                if k is not None and penv.get(k) in (True, False):
                    val = {penv[k]}
                else:
                    # `param == Enum::Variant` computed into a bool
                    val = set()
                    for o in origins(body, c.place, transparent=()):
                        if o.kind == "call":
                            e = _enum_comparison(prog, body, o, penv)
                            val.add(e if e is not None else "?")
                        else:
                            val.add("?")
                if val == {True} and c.is_false() or val == {False} and c.is_true():
                    bad.add(bb)
                    break
    res = frozenset(bad)
    _infeasible_cache[key] = res
    return res


def _enum_comparison(prog, body, o, penv):
    """shape of `a == b` / `a != b` when one side is an enum parameter and the other a constant variant"""
    d = callee_decl(o.data)
    if d not in ("core::cmp::PartialEq::eq", "core::cmp::PartialEq::ne"):
        return None
    args = o.site.node["args"]
    if len(args) != 2:
        return None
    k = name = None
    for a in args:
        kk = _param_of(body, a)
        if kk is not None:
            k = kk
            continue
        for oo in origins(body, a, transparent=()):
            if oo.kind == "const" and oo.data.get("variant"):
                name = oo.data["variant"]
            elif oo.kind == "agg" and oo.data.get("kind") == "adt" and oo.data.get("variant") and not oo.site.node["rv"]["ops"]:
                name = oo.data["variant"]
    if k is None or name is None:
        return None
    v = (penv or {}).get(k)
    if isinstance(v, tuple) and v[0] == "variant":
        r = v[1] == name
        return r if d.endswith("::eq") else (not r)
    return ("eq" if d.endswith("::eq") else "ne", k, name)


def _const_arg(prog, body, x, penv):
    """True / False / ('variant', name) when the argument is a constant (or a parameter fixed by penv), else None"""
    kk = op_const(x)
    if kk is not None:
        if "bool" in kk:
            return kk["bool"]
        if kk.get("variant"):
            return ("variant", kk["variant"])
        return None
    vals = set()
    for oo in origins(body, x, transparent=()):
        if oo.kind == "const" and "bool" in oo.data:
            vals.add(oo.data["bool"])
        elif oo.kind == "const" and oo.data.get("variant"):
            vals.add(("variant", oo.data["variant"]))
        elif oo.kind == "agg" and oo.data.get("kind") == "adt" and oo.data.get("variant") and not oo.site.node["rv"]["ops"] and not (oo.data.get("path") or "").startswith("core::"):
            vals.add(("variant", oo.data["variant"]))
        elif oo.kind == "param" and not oo.fields and (penv or {}).get(oo.data) is not None:
            vals.add(penv[oo.data])
        elif oo.kind == "upvar" and not oo.fields and (penv or {}).get(("up", oo.data)) is not None:
            vals.add(penv[("up", oo.data)])
        else:
            return None
    return next(iter(vals)) if len(vals) == 1 else None


def _closure_env(prog, body, cb, penv):
    """constants a closure created in `body` captures: {("up", field): True | False | ('variant', name)} for the captured variables
    that are constants in `body` (or parameters of `body` fixed by penv)"""
    env = {}
    if cb is None or cb.kind != "closure":
        return env
    from .tags import _closure_capture_operand

    for u in cb.upvars or []:
        try:
            par, cop = _closure_capture_operand(prog, cb, u["field"])
        except Exception:
            continue
        if par is not body or cop is None:
            continue
        kv = _const_arg(prog, body, cop, penv)
        if kv is not None:
            env[("up", u["field"])] = kv
    return env


def _ty_kind(ty):
    ty = ty.strip()
    if ty == "bool":
        return "bool"
    if ty.startswith("core::option::Option<"):
        return "option"
    if ty.startswith("("):
        return "tuple"
    return "other"


def _root_local_of(body, op):
    """the local an operand is a (clone of a / reference to a / move of a) view of"""
    p = op_place(op)
    if p is None:
        return None
    l = p["l"]
    for _ in range(8):
        ds = body.defs.get(l, [])
        if len(ds) != 1:
            return l
        d = ds[0]
        if d.si is None:
            c = d.node.get("callee")
            if c is not None and callee_decl(c) in ("core::clone::Clone::clone", "core::option::Option::as_ref") and d.node["args"]:
                q = op_place(d.node["args"][0])
                if q is None:
                    return l
                l = q["l"]
                continue
            return l
        rv = d.node.get("rv") or {}
        if d.node["k"] == "assign" and rv.get("k") in ("use", "ref"):
            q = rv.get("place") if rv["k"] == "ref" else op_place(rv["ops"][0])
            if q is None or [e for e in q["p"] if e != "*"]:
                return l
            l = q["l"]
            continue
        return l
    return l


def shapes_of(prog, body, op, site=None, stack=(), depth=0, penv=None):
    k = op_const(op)
    if k is not None:
        if "bool" in k:
            return {k["bool"]}
        return {"v"}
    if depth > 10:
        return {"?"}
    out = set()
    p = op_place(op)
    if p is not None:
        # a value that is neither a bool, an Option nor a tuple has no shape to follow (a vector moved out of a struct, ..)
        ty = body.local_ty(p["l"])
        for e in p["p"]:
            if e == "*":
                ty = ty.lstrip("&")
                ty = ty[4:] if ty.startswith("mut ") else ty
                if ty.startswith("alloc::boxed::Box<") and ty.endswith(">"):
                    ty = ty[len("alloc::boxed::Box<") : -1]
            elif isinstance(e, dict) and "f" in e and e.get("ty"):
                ty = e["ty"]
            else:
                ty = None
                break
        if ty is not None:
            ty = ty.lstrip("&")
            ty = ty[4:] if ty.startswith("mut ") else ty
            if _ty_kind(ty) == "other" and not ty.startswith("impl ") and "dyn " not in ty[:5] and re.match(r"^(alloc::vec::Vec<|alloc::string::String$|usize$|\[)", ty):
                return {"v"}
    flt = None
    if penv:
        dead = infeasible_blocks(prog, body, penv, stack)
        if dead:
            flt = lambda l, ds: [d for d in ds if d.bb not in dead] or ds
    os_ = origins(body, op, transparent=("core::clone::Clone::clone",), def_filter=flt)
    for o in os_:
        if o.kind == "const":
            out.add(o.data["bool"] if "bool" in o.data else "v")
        elif o.kind == "param":
            ty = body.local_ty(o.data)
            if ty == "bool" and not o.fields:
                out.add(penv[o.data] if penv and penv.get(o.data) in (True, False) else ("p", o.data))
            else:
                out.add("v")
        elif o.kind == "agg":
            a = o.data
            ops = o.site.node["rv"]["ops"]
            if a["kind"] == "tuple":
                # components that are projections of one local tuple keep their correlation
                bases = [_field_of_local(body, x) for x in ops]
                common = {}
                for i, bf in enumerate(bases):
                    if bf is not None:
                        common.setdefault(bf[0], []).append((i, bf[1]))
                joint = None
                for bl, members in common.items():
                    if len(members) >= 2 and not (1 <= bl <= body.n_args):
                        joint = (bl, members)
                comps = [shapes_of(prog, body, x, o.site, stack, depth + 1, penv) for x in ops]
                # `(x.is_none(), x)`: the bool is a function of the Option next to it
                if len(ops) == 2 and joint is None:
                    rel = None
                    for oo in origins(body, ops[0], transparent=()):
                        if oo.kind == "call" and callee_decl(oo.data) in ("core::option::Option::is_none", "core::option::Option::is_some"):
                            ra = _root_local_of(body, oo.site.node["args"][0])
                            rb = _root_local_of(body, ops[1])
                            if ra is not None and ra == rb and rel in (None, callee_decl(oo.data).rsplit("::", 1)[-1]):
                                rel = callee_decl(oo.data).rsplit("::", 1)[-1]
                            else:
                                rel = "mixed"
                        else:
                            rel = "mixed"
                    if rel in ("is_none", "is_some"):
                        for y in comps[1]:
                            some = isinstance(y, tuple) and y[0] == "Some"
                            none = y == "None"
                            st = (none if rel == "is_none" else some) if (some or none) else "?"
                            out.add(project(("t", (st, y)), o.fields))
                        continue
                # `let cert = if flag { None } else { Some(ext) }; (flag, cert)`: the second component is chosen by the first
                if len(ops) == 2 and joint is None and op_place(ops[0]) is not None and op_place(ops[1]) is not None and not op_place(ops[0])["p"] and not op_place(ops[1])["p"] and body.local_ty(op_place(ops[0])["l"]) == "bool":
                    B = _root_local_of(body, ops[0])
                    X = _root_local_of(body, ops[1])
                    defs = [d for d in body.defs.get(X, []) if d.si is not None and d.node["k"] == "assign"] if X is not None and not (1 <= X <= body.n_args) else []
                    pairs = set()
                    good = len(defs) >= 2 and len(defs) == len(body.defs.get(X, [])) and B is not None and len(body.defs.get(B, [])) <= 1
                    for d in defs:
                        truth = None
                        for c in conditions(body, d.bb):
                            if not c.is_discr and _root_local_of(body, {"c": c.place}) == B and not c.place["p"]:
                                truth = True if c.is_true() else (False if c.is_false() else None)
                        rv = d.node["rv"]
                        if truth is None:
                            good = False
                            break
                        if rv["k"] == "aggregate" and rv["agg"].get("path") == "core::option::Option":
                            ys = {"None"} if rv["agg"].get("variant") == "None" else {("Some", x) for x in shapes_of(prog, body, rv["ops"][0], d, stack, depth + 1, penv)}
                        elif rv["k"] == "use":
                            ys = shapes_of(prog, body, rv["ops"][0], d, stack, depth + 1, penv)
                        else:
                            good = False
                            break
                        # the flag itself may be known (a constant handed down): keep what agrees with it
                        for y in ys:
                            if any(x == truth or x not in (True, False) for x in comps[0]):
                                pairs.add((truth, y))
                    if good and pairs:
                        for pr in pairs:
                            out.add(project(("t", pr), o.fields))
                        continue
                combos = [()]
                if joint is not None:
                    bl, members = joint
                    whole = shapes_of(prog, body, {"c": {"l": bl, "p": []}}, o.site, stack, depth + 1, penv)
                    combos = []
                    for w in whole:
                        base = [None] * len(ops)
                        for i, flds in members:
                            base[i] = {project(w, flds)}
                        sub = [()]
                        for i in range(len(ops)):
                            cs = base[i] if base[i] is not None else comps[i]
                            sub = [c + (x,) for c in sub for x in cs][:MAXS]
                        combos += sub
                    combos = combos[:MAXS]
                else:
                    if sum(1 for cs in comps if len(cs) > 1) >= 2:
                        global _cross_events
                        _cross_events += 1
                    for cs in comps:
                        combos = [c + (x,) for c in combos for x in cs][:MAXS]
                for c in combos:
                    out.add(project(("t", c), o.fields))
            elif a["kind"] == "adt" and a["path"] == "core::option::Option":
                if a["variant"] == "None":
                    out.add(project("None", o.fields) if o.fields else "None")
                else:
                    for x in shapes_of(prog, body, ops[0], o.site, stack, depth + 1, penv):
                        out.add(project(("Some", x), o.fields))
            else:
                out.add("v")
        elif o.kind == "unop" and o.data["op"] == "Not":
            for x in shapes_of(prog, body, o.data["ops"][0], o.site, stack, depth + 1, penv):
                out.add(neg(x))
        elif o.kind == "call":
            c = o.data
            ec = _enum_comparison(prog, body, o, penv)
            if ec is not None and not o.fields:
                out.add(ec)
                continue
            tgt = prog.body_for_callee(c, body) if c.get("decl") != "<indirect>" else None
            if tgt is None and c.get("virtual") and c.get("trait") in prog.traits and c.get("trait", "").startswith("solvers::specs::"):
                # dynamic dispatch on a solver trait: any implementation (summaries of all impls)
                mname = c["decl"].rsplit("::", 1)[-1]
                for _, mb in prog.impl_methods(c["trait"], mname):
                    if mb.id in stack or mb is body:
                        continue
                    for s2 in return_shapes(prog, mb, stack + (body.id,)):
                        if s2 != "?":
                            out.add(project(s2, o.fields))
                continue
            if tgt is not None:
                env = {}
                args = o.site.node["args"]
                # closures called directly: args = (closure, (tuple,))
                if tgt.kind == "closure" and len(args) == 2:
                    for oo in origins(body, args[1], transparent=()):
                        if oo.kind == "agg" and oo.data["kind"] == "tuple":
                            for i, x in enumerate(oo.site.node["rv"]["ops"]):
                                kv = _const_arg(prog, body, x, penv)
                                if kv is not None:
                                    env[i + 2] = kv
                else:
                    for i, x in enumerate(args):
                        kv = _const_arg(prog, body, x, penv)
                        if kv is not None:
                            env[i + 1] = kv
                        elif op_place(x) is None:
                            continue
                        else:
                            # a bool parameter of the caller forwarded unchanged
                            xs = shapes_of(prog, body, x, o.site, stack, depth + 1, penv) if body.local_ty(op_place(x)["l"]) == "bool" and not op_place(x)["p"] else set()
                            if len(xs) == 1:
                                env[i + 1] = next(iter(xs))
                rs = {subst(s, env) for s in return_shapes(prog, tgt, stack, env)}
                rs = _restrict(prog, body, o, rs, site)
                for s in rs:
                    out.add(project(s, o.fields))
            else:
                d = callee_decl(c)
                if d in ("core::option::Option::is_some", "core::option::Option::is_none", "core::slice::contains", "core::iter::traits::iterator::Iterator::any", "core::iter::traits::iterator::Iterator::all", "core::cmp::PartialEq::eq", "core::cmp::PartialEq::ne", "alloc::vec::Vec::is_empty"):
                    out.add("?")
                elif d in ("core::option::Option::unwrap_or", "core::option::Option::unwrap_or_else", "core::option::Option::unwrap_or_default"):
                    a = o.site.node["args"]
                    for x in shapes_of(prog, body, a[0], o.site, stack, depth + 1, penv):
                        if isinstance(x, tuple) and x[0] == "Some":
                            out.add(project(x[1], o.fields))
                        elif x == "None" or x == "?" or x == "v":
                            if d.endswith("unwrap_or") and len(a) == 2:
                                for y in shapes_of(prog, body, a[1], o.site, stack, depth + 1, penv):
                                    out.add(project(y, o.fields))
                            elif d.endswith("unwrap_or_else"):
                                got = False
                                for fa in c.get("fn_args") or []:
                                    cb = prog.by_target[body.target].get(fa) or prog.by_target["lib"].get(fa)
                                    if cb is not None:
                                        got = True
                                        for y in return_shapes(prog, cb, stack + (body.id,)):
                                            out.add(project(y, o.fields))
                                if not got:
                                    out.add("?")
                            else:
                                out.add("?")
                            if x != "None":
                                out.add("?")
                elif d in ("core::iter::traits::iterator::Iterator::find_map", "core::iter::traits::iterator::Iterator::filter_map") and d.endswith("find_map"):
                    out.add(project("None", o.fields) if o.fields else "None")
                    got = False
                    for fa in c.get("fn_args") or []:
                        cb = prog.by_target[body.target].get(fa) or prog.by_target["lib"].get(fa)
                        if cb is not None:
                            got = True
                            for y in return_shapes(prog, cb, stack + (body.id,), _closure_env(prog, body, cb, penv)):
                                if isinstance(y, tuple) and y[0] == "Some":
                                    out.add(project(y, o.fields))
                                elif y != "None":
                                    out.add("?")
                    if not got:
                        out.add("?")
                elif d == "core::ops::try_trait::FromResidual::from_residual" and o.site.node["dst"]["l"] == 0 and body.ret_ty.replace("core::option::", "").startswith("Option<"):
                    # `x?` on an Option in a function returning an Option: the early return is None
                    out.add(project("None", o.fields) if o.fields else "None")
                elif d == "core::option::Option::map":
                    for x in shapes_of(prog, body, o.site.node["args"][0], o.site, stack, depth + 1, penv):
                        out.add(project(("Some", "v") if isinstance(x, tuple) and x[0] == "Some" else x, o.fields))
                elif d in ("core::option::Option::take", "core::mem::replace", "core::mem::take"):
                    out.add("?")
                else:
                    kind = _ty_kind(body.local_ty(o.site.node["dst"]["l"]))
                    out.add("v" if kind == "other" and not o.fields else "?")
        elif o.kind in ("binop", "discr", "unknown", "unop"):
            out.add("?")
        elif o.kind == "upvar":
            out.add("?")
        elif o.kind in ("undef", "partial"):
            continue
        else:
            out.add("?")
    return out or {"?"}


def _field_of_local(body, op, limit=6):
    """(local, fields) when the operand is (a copy/move of) a field path of a local"""
    p = op_place(op)
    for _ in range(limit):
        if p is None:
            return None
        if p["p"]:
            if any(e == "*" for e in p["p"]):
                return None
            return (p["l"], tuple(str(f) for f in place_fields(p)))
        ds = body.defs.get(p["l"], [])
        if len(ds) == 1 and ds[0].si is None and callee_decl(callee_of(ds[0])) in ("core::option::Option::map", "core::option::Option::as_ref", "core::option::Option::cloned", "core::option::Option::as_mut"):
            # Some-ness preserving adaptors
            p = op_place(ds[0].node["args"][0])
            continue
        if len(ds) != 1 or ds[0].si is None or ds[0].node["k"] != "assign" or ds[0].node["rv"]["k"] != "use":
            return None
        p = op_place(ds[0].node["rv"]["ops"][0])
    return None


def _restrict(prog, body, origin, shapes, site):
    """keep the shapes of a call result compatible with the branch conditions dominating `site`
    that test components of that very result"""
    if site is None:
        return shapes
    res_local = origin.site.node["dst"]["l"]
    keep = set(shapes)
    # `let (answer, ids) = call(..); match ids { .. }`: a local that is one component of the result moved out of it
    moved = {}
    for l, ds in body.defs.items():
        if len(ds) == 1 and ds[0].si is not None and ds[0].node["k"] == "assign" and ds[0].node["rv"]["k"] == "use":
            q = op_place(ds[0].node["rv"]["ops"][0])
            if q is not None and q["l"] == res_local and q["p"] and all(isinstance(e, dict) and "f" in e for e in q["p"]):
                moved[l] = [str(f) for f in place_fields(q)]
    for c in conditions(body, site.bb):
        if c.place["l"] in moved and c.place["l"] != res_local:
            flds = moved[c.place["l"]] + [str(f) for f in place_fields(c.place)]
        elif c.place["l"] != res_local:
            continue
        else:
            flds = [str(f) for f in place_fields(c.place)]
        new = set()
        for s in keep:
            comp = project(s, flds)
            ok = True
            if c.is_discr:
                is_some = isinstance(comp, tuple) and comp[0] == "Some"
                is_none = comp == "None"
                vals = set(c.values)
                if comp == "?":
                    ok = True
                elif not c.negated:
                    ok = (is_some and "1" in vals) or (is_none and "0" in vals)
                else:
                    ok = not ((is_some and "1" in vals) or (is_none and "0" in vals))
            else:
                if comp is True:
                    ok = not c.is_false()
                elif comp is False:
                    ok = not c.is_true()
            if ok:
                new.add(s)
        keep = new
    return keep
