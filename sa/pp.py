"""debug pretty-printer for fact bodies:  python3 -m sa.pp <regex> [facts_dir]"""
import sys
from . import core


def op_s(o):
    if "c" in o:
        return "copy " + core.proj_str(o["c"])
    if "m" in o:
        return "move " + core.proj_str(o["m"])
    k = o.get("k")
    if k is not None:
        if "fn" in k:
            return "fn " + core.callee_name(k["fn"])
        for key in ("str", "int", "bool"):
            if key in k:
                return "const %r" % (k[key],)
        return "const<%s>%s" % (k["ty"], " item=" + k["item"] if "item" in k else "")
    return str(o)


def rv_s(rv):
    k = rv["k"]
    if k in ("use",):
        return op_s(rv["ops"][0])
    if k == "ref":
        return "&%s%s" % ("mut " if rv["mut"] else "", core.proj_str(rv["place"]))
    if k == "rawptr":
        return "&raw %s" % core.proj_str(rv["place"])
    if k == "cast":
        return "%s as %s (%s)" % (op_s(rv["ops"][0]), rv["ty"], rv["cast"])
    if k in ("binop", "unop"):
        return "%s(%s)" % (rv["op"], ", ".join(op_s(o) for o in rv["ops"]))
    if k == "discr":
        return "discr(%s)" % core.proj_str(rv["place"])
    if k == "aggregate":
        a = rv["agg"]
        nm = a["kind"]
        if a["kind"] == "adt":
            nm = "%s::%s" % (a["path"], a["variant"])
        elif a["kind"] == "closure":
            nm = "closure " + a["path"]
        return "%s{%s}" % (nm, ", ".join(op_s(o) for o in rv["ops"]))
    return "%s %s" % (k, rv.get("dbg", ""))


def pp(b, out=sys.stdout):
    w = out.write
    w("== %s [%s] %s:%d-%d kind=%s args=%d ret=%s\n" % (b.path, b.target, b.file, b.line_lo, b.line_hi, b.kind, b.n_args, b.ret_ty))
    for i, l in enumerate(b.locals):
        nm = b.local_name(i)
        w("   _%d: %s%s\n" % (i, l["ty"], "  // " + nm if nm else ""))
    for u in b.upvars:
        w("   upvar %s\n" % (u,))
    for i, blk in enumerate(b.blocks):
        if blk["cleanup"]:
            continue
        w(" bb%d:\n" % i)
        for s in blk["stmts"]:
            if s["k"] == "assign":
                w("    %s = %s   @%s\n" % (core.proj_str(s["dst"]), rv_s(s["rv"]), s["line"]))
            else:
                w("    setdiscr %s = %s\n" % (core.proj_str(s["dst"]), s["variant_idx"]))
        t = blk["term"]
        k = t["k"]
        if k == "call":
            c = t.get("callee")
            nm = core.callee_name(c) if c else "(" + op_s(t["callee_op"]) + ")"
            extra = ""
            if c and c.get("virtual"):
                extra = " [virtual]"
            if c and c.get("fn_args"):
                extra += " fn_args=%s" % c["fn_args"]
            w("    %s = %s(%s)%s -> %s   @%s\n" % (core.proj_str(t["dst"]), nm, ", ".join(op_s(a) for a in t["args"]), extra, t["target"], t["line"]))
        elif k == "switch":
            w("    switch %s %s otherwise %s   @%s\n" % (op_s(t["discr"]), t["targets"], t["otherwise"], t["line"]))
        elif k == "assert":
            w("    assert %s == %s (%s) -> %s\n" % (op_s(t["cond"]), t["expected"], t["msg"], t["target"]))
        elif k == "drop":
            w("    drop %s -> %s\n" % (core.proj_str(t["place"]), t["target"]))
        elif k == "goto":
            w("    goto %s\n" % t["target"])
        else:
            w("    %s\n" % k)


if __name__ == "__main__":
    import re

    d = sys.argv[2] if len(sys.argv) > 2 else "/verif/.cache/facts"
    prog = core.Program(d)
    r = re.compile(sys.argv[1])
    for b in sorted(prog.bodies.values(), key=lambda b: b.id):
        if r.search(b.id):
            pp(b)
