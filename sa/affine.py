"""F7: abstract interpretation of the small pure integer functions that map argument ids to SAT
variables into affine forms  sum(coeff * symbol) + const  over symbols 'id', 'n', 'v', 'p<k>'.
Operators: + - (checked or not), << >> by constants (>> only when exact), * by constants,
casts between integer types, calls of local pure functions (inlined), AAFramework::n_arguments
(symbol 'n'), Label::id (symbol 'id').  Anything else makes the value non-affine (None)."""
from fractions import Fraction

from .core import callee_of, callee_decl, callee_matches, op_place, op_const, origins, place_fields
from .flow import conditions


class Aff:
    __slots__ = ("t", "c")

    def __init__(self, terms=None, const=0):
        self.t = {k: v for k, v in (terms or {}).items() if v != 0}
        self.c = const

    @staticmethod
    def sym(s):
        return Aff({s: 1}, 0)

    def __add__(self, o):
        t = dict(self.t)
        for k, v in o.t.items():
            t[k] = t.get(k, 0) + v
        return Aff(t, self.c + o.c)

    def __sub__(self, o):
        return self + o.scale(-1)

    def scale(self, k):
        return Aff({s: v * k for s, v in self.t.items()}, self.c * k)

    def div_exact(self, k):
        if any(v % k for v in self.t.values()) or self.c % k:
            return None
        return Aff({s: v // k for s, v in self.t.items()}, self.c // k)

    def is_const(self):
        return not self.t

    def subst(self, env):
        out = Aff({}, self.c)
        for s, v in self.t.items():
            if s in env:
                out = out + env[s].scale(v)
            else:
                out = out + Aff({s: v}, 0)
        return out

    def coeff(self, s):
        return self.t.get(s, 0)

    def key(self):
        return (tuple(sorted(self.t.items())), self.c)

    def __eq__(self, o):
        return isinstance(o, Aff) and self.key() == o.key()

    def __hash__(self):
        return hash(self.key())

    def __repr__(self):
        parts = []
        for s, v in sorted(self.t.items()):
            parts.append(("%s" % s) if v == 1 else ("%d*%s" % (v, s)))
        if self.c or not parts:
            parts.append(str(self.c))
        return " + ".join(parts)


def eval_operand(prog, body, op, env, depth=0):
    """affine value of an integer operand; env maps parameter index -> Aff"""
    if depth > 14:
        return None
    k = op_const(op)
    if k is not None:
        return Aff({}, k["int"]) if "int" in k else None
    vals = set()
    for o in origins(body, op, transparent=()):
        v = None
        if o.kind == "const":
            v = Aff({}, o.data["int"]) if "int" in o.data else None
        elif o.kind == "param":
            v = env.get(o.data)
            if v is None and not o.fields:
                v = Aff.sym("p%d" % o.data)
        elif o.kind == "binop":
            opn = o.data["op"].replace("WithOverflow", "")
            a = eval_operand(prog, body, o.data["ops"][0], env, depth + 1)
            b = eval_operand(prog, body, o.data["ops"][1], env, depth + 1)
            if a is None or b is None:
                v = None
            elif opn == "Add":
                v = a + b
            elif opn == "Sub":
                v = a - b
            elif opn == "Mul" and (a.is_const() or b.is_const()):
                v = b.scale(a.c) if a.is_const() else a.scale(b.c)
            elif opn == "Shl" and b.is_const():
                v = a.scale(1 << b.c)
            elif opn == "Shr" and b.is_const():
                v = a.div_exact(1 << b.c)
            elif opn == "Div" and b.is_const() and b.c:
                v = a.div_exact(b.c)
            else:
                v = None
        elif o.kind == "call":
            c = o.data
            d = callee_decl(c)
            if d == "utils::label::Label::id":
                v = Aff.sym("id")
            elif callee_matches(c, r"AAFramework::n_arguments$|ArgumentSet::len$"):
                v = Aff.sym("n")
            else:
                tgt = prog.body_for_callee(c, body) if c.get("decl") != "<indirect>" else None
                if tgt is not None and tgt.ret_ty in ("usize", "isize") and tgt.n_args <= 3:
                    sub = {}
                    okk = True
                    for i, a in enumerate(o.site.node["args"]):
                        av = eval_operand(prog, body, a, env, depth + 1)
                        if av is None and tgt.local_ty(i + 1) in ("usize", "isize"):
                            okk = False
                        sub[i + 1] = av
                    v = eval_function(prog, tgt, sub, depth + 1) if okk else None
                elif c.get("decl") == "<indirect>" or callee_matches(c, r"ops::function::Fn::call$"):
                    v = None
                else:
                    v = None
        else:
            v = None
        if v is None:
            return None
        vals.add(v)
    if len(vals) == 1:
        return next(iter(vals))
    return None


def eval_function(prog, fn, env=None, depth=0):
    """affine form of the value returned by a pure integer function"""
    if env is None:
        env = {}
    return eval_operand(prog, fn, {"c": {"l": 0, "p": []}}, env, depth)


# ------------------------------------------------------------------------------------------
# facts over 0 <= id < n, n >= 1


def always_positive(a, domain):
    """is the affine form > 0 for all assignments of its symbols in `domain`?
    domain: 'n' >= 1, 'id' in [0, n-1], 'j' in [0, n-1]"""
    # eliminate id / j by their extreme values (pick the minimising end)
    forms = [a]
    for s in ("id", "j"):
        new = []
        for f in forms:
            k = f.coeff(s)
            if k == 0:
                new.append(f)
            elif k > 0:
                new.append(f.subst({s: Aff({}, 0)}))
            else:
                new.append(f.subst({s: Aff({"n": 1}, -1)}))
        forms = new
    new = []
    for f in forms:
        k = f.coeff("m")
        if k < 0:
            return False
        new.append(f.subst({"m": Aff({}, 0)}) if k else f)
    forms = new
    for f in forms:
        if set(f.t) - {"n"}:
            return False
        p, q = f.coeff("n"), f.c
        # p*n + q > 0 for all n >= 1
        if not (p >= 0 and p + q > 0):
            return False
    return True


def always_nonneg(a, domain=None):
    return always_positive(a + Aff({}, 1), domain)


def images_disjoint(f, g):
    """are {f(id) : 0<=id<n} and {g(j) : 0<=j<n} disjoint for every n >= 1 ?  (f in 'id', g in 'j')"""
    # interval separation
    if always_positive(g - f, None) or always_positive(f - g, None):
        return "interval"
    # congruence: a modulus m dividing every coefficient of both forms, with different residues
    import math

    coeffs = [abs(v) for v in list(f.t.values()) + list(g.t.values()) if v]
    if coeffs:
        m = 0
        for c in coeffs:
            m = math.gcd(m, c)
        if m > 1 and (f.c - g.c) % m != 0:
            return "congruence mod %d" % m
    return None
