#!/bin/sh
# debug helper: regenerate /verif/.cache/facts from a checkout (default /repo)
REPO=${1:-/repo}
cd /verif && python3 -c "
import sys
sys.path.insert(0,'/verif')
from sa import engine
try:
    p,tq,st=engine.generate_facts('$REPO')
    print(st)
except engine.CannotAnalyse as e:
    print('CANNOT', e)
"
